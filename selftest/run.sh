#!/bin/bash
# Must-fail selftest: every patch under mutants/ must turn its property's check from exit 0 into exit 1.
# usage: selftest/run.sh [pattern]
set -u
V=/verif
pat="${1:-}"
fail=0
# frozen snapshot of /repo: the mutants are derived from it, so /repo may be edited while the selftest runs
BASE=$(mktemp -d /tmp/govc-selftest-base-XXXXXX)
rsync -a --exclude .git ${GOVC_BASE_REPO:-/repo}/ $BASE/
trap 'rm -rf $BASE' EXIT
for p in $V/selftest/mutants/*${pat}*.patch; do
  name=$(basename $p .patch)
  prop=${name%%-*}
  d=$(mktemp -d /tmp/govc-mut-XXXXXX)
  rsync -a $BASE/ $d/
  if ! (cd $d && patch -s -p1 < $p); then echo "SELFTEST $name: patch does not apply"; fail=1; rm -rf $d; continue; fi
  if ! (cd $d && GOFLAGS=-mod=mod go build ./... 2>/dev/null); then echo "SELFTEST $name: mutant does not compile"; fail=1; rm -rf $d; continue; fi
  out=$(GOVC_REPO=$d GOVC_EVIDENCE=/tmp/govc-mut-evidence $V/bin/govc check --property $prop --tier quick 2>&1)
  rc=$?
  if [ $rc -eq 1 ]; then echo "SELFTEST $name: caught ($(echo "$out" | grep -c '^VIOLATION') violation lines; $(echo "$out" | grep '^  obligation' | head -1))"; else echo "SELFTEST $name: MISSED (exit $rc)"; echo "$out" | tail -3; fail=1; fi
  rm -rf $d
done
rm -rf /tmp/govc-mut-evidence
exit $fail
