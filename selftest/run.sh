#!/bin/bash
# Must-fail selftest: every patch under mutants/ must turn its property's check from exit 0 into exit 1.
# usage: selftest/run.sh [pattern]      (SELFTEST_JOBS=4 mutants are checked concurrently)
set -u
V=/verif
pat="${1:-}"
jobs="${SELFTEST_JOBS:-4}"
# frozen snapshot of /repo: the mutants are derived from it, so /repo may be edited while the selftest runs
BASE=$(mktemp -d /tmp/govc-selftest-base-XXXXXX)
rsync -a --exclude .git ${GOVC_BASE_REPO:-/repo}/ $BASE/
RES=$(mktemp -d /tmp/govc-selftest-res-XXXXXX)
trap 'rm -rf $BASE $RES /tmp/govc-mut-evidence-*' EXIT
one() {
  p=$1
  name=$(basename $p .patch)
  prop=${name%%-*}
  d=$(mktemp -d /tmp/govc-mut-XXXXXX)
  rsync -a $BASE/ $d/
  if ! (cd $d && patch -s -p1 < $p); then echo "SELFTEST $name: patch does not apply" > $RES/$name; echo 1 > $RES/$name.rc; rm -rf $d; return; fi
  if ! (cd $d && GOFLAGS=-mod=mod go build ./... 2>/dev/null); then echo "SELFTEST $name: mutant does not compile" > $RES/$name; echo 1 > $RES/$name.rc; rm -rf $d; return; fi
  out=$(GOVC_REPO=$d GOVC_EVIDENCE=/tmp/govc-mut-evidence-$name $V/bin/govc check --property $prop --tier quick 2>&1)
  rc=$?
  if [ $rc -eq 1 ]; then echo "SELFTEST $name: caught ($(echo "$out" | grep -c '^VIOLATION') violation lines; $(echo "$out" | grep -E '^  obligation|^  proved' | head -1 | cut -c1-200))" > $RES/$name; echo 0 > $RES/$name.rc
  else echo "SELFTEST $name: MISSED (exit $rc) $(echo "$out" | tail -2 | tr '\n' ' ' | cut -c1-300)" > $RES/$name; echo 1 > $RES/$name.rc; fi
  rm -rf $d /tmp/govc-mut-evidence-$name
  cat $RES/$name
}
for p in $V/selftest/mutants/*${pat}*.patch; do
  while [ $(jobs -r | wc -l) -ge $jobs ]; do sleep 1; done
  one $p &
done
wait
fail=0
for f in $RES/*.rc; do [ "$(cat $f)" != "0" ] && fail=1; done
echo "SELFTEST done: $(ls $RES/*.rc | wc -l) mutants, $(grep -l '^0' $RES/*.rc | wc -l) caught"
exit $fail
