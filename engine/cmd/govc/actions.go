package main

import (
	"bytes"
	"fmt"
	"go/ast"
	"go/parser"
	"go/token"
	"os"
	"path/filepath"
	"strconv"
	"strings"
)

// C03 (a): the semantic actions of the grammar.
//
// goyacc compiles every action of parser.go.y into one `case N:` of the `switch yynt` inside yyParserImpl.Parse. On every
// run the case bodies are extracted MECHANICALLY (go/parser on /repo/parser/parser.go, source text copied byte for
// byte) into functions
//
//	func yyAction_N(yyDollar []yySymType, yyVAL *yySymType, yylex yyLexer) { <body of case N> }
//
// held in a go/packages overlay file (never written to disk), so that they go through the same SSA -> VC pipeline as
// every other function. What the extraction drops: the LR driver loop around the switch (trusted), the statement
// `yyDollar = yyS[yypt-k : yypt+1]` that precedes each body (yyDollar becomes a parameter with len k+1, stated as a
// precondition), and the fact that yyVAL is a local struct of the driver (it becomes a pointer parameter; field syntax
// is unchanged). Contracts are keyed by the production TEXT (`func action["lhs : rhs"]`) and resolved to N through the
// production numbering read from parser.go.y.

const actionsOverlayName = "zz_yyactions_verif.go"

// extractActions returns the overlay file content and, per action number, the value of k (number of right-hand symbols).
func extractActions(parserGo string) ([]byte, map[int]int, error) {
	src, err := os.ReadFile(parserGo)
	if err != nil {
		return nil, nil, err
	}
	fset := token.NewFileSet()
	f, err := parser.ParseFile(fset, parserGo, src, parser.ParseComments)
	if err != nil {
		return nil, nil, err
	}
	var sw *ast.SwitchStmt
	ast.Inspect(f, func(n ast.Node) bool {
		if s, ok := n.(*ast.SwitchStmt); ok {
			if id, ok := s.Tag.(*ast.Ident); ok && id.Name == "yynt" {
				sw = s
				return false
			}
		}
		return true
	})
	if sw == nil {
		return nil, nil, fmt.Errorf("switch yynt not found in %s", parserGo)
	}
	var b bytes.Buffer
	b.WriteString("//go:build verif\n// +build verif\n\n// Extracted mechanically from parser.go by govc on this run (overlay, not on disk).\n\npackage parser\n\n")
	// the imports the action bodies need are those of parser.go
	b.WriteString("import (\n")
	for _, im := range f.Imports {
		if im.Name != nil {
			b.WriteString("\t" + im.Name.Name + " ")
		} else {
			b.WriteString("\t")
		}
		b.WriteString(im.Path.Value + "\n")
	}
	b.WriteString(")\n\n")
	ks := map[int]int{}
	for _, cc := range sw.Body.List {
		c, ok := cc.(*ast.CaseClause)
		if !ok || len(c.List) != 1 {
			continue
		}
		lit, ok := c.List[0].(*ast.BasicLit)
		if !ok {
			continue
		}
		n, err := strconv.Atoi(lit.Value)
		if err != nil || len(c.Body) < 1 {
			continue
		}
		// first statement: yyDollar = yyS[yypt-k : yypt+1]
		k := -1
		if as, ok := c.Body[0].(*ast.AssignStmt); ok && len(as.Lhs) == 1 {
			if id, ok := as.Lhs[0].(*ast.Ident); ok && id.Name == "yyDollar" {
				if se, ok := as.Rhs[0].(*ast.SliceExpr); ok {
					if be, ok := se.Low.(*ast.BinaryExpr); ok && be.Op == token.SUB {
						if bl, ok := be.Y.(*ast.BasicLit); ok {
							k, _ = strconv.Atoi(bl.Value)
						}
					}
				}
			}
		}
		if k < 0 {
			return nil, nil, fmt.Errorf("case %d: unexpected shape (no yyDollar assignment)", n)
		}
		ks[n] = k
		fmt.Fprintf(&b, "func yyAction_%d(yyDollar []yySymType, yyVAL *yySymType, yylex yyLexer) {\n", n)
		if len(c.Body) > 1 {
			from := fset.Position(c.Body[1].Pos()).Offset
			to := fset.Position(c.Body[len(c.Body)-1].End()).Offset
			b.Write(src[from:to])
			b.WriteString("\n")
		}
		b.WriteString("}\n\n")
	}
	// imports that no action uses would not compile: reference them
	b.WriteString("var _ = []interface{}{")
	first := true
	for _, im := range f.Imports {
		p, _ := strconv.Unquote(im.Path.Value)
		name := filepath.Base(p)
		if im.Name != nil {
			name = im.Name.Name
		}
		if name == "_" || name == "." {
			continue
		}
		if !first {
			b.WriteString(", ")
		}
		first = false
		b.WriteString(name + "." + anyExportedOf(filepath.Base(p)))
	}
	b.WriteString("}\n")
	return b.Bytes(), ks, nil
}

// anyExportedOf: an expression mentioning the package, to keep its import used.
func anyExportedOf(pkg string) string {
	switch pkg {
	case "ast":
		return "Position{}"
	case "fmt":
		return "Sprint"
	case "reflect":
		return "TypeOf"
	case "strconv":
		return "Itoa"
	case "strings":
		return "TrimSpace"
	case "errors":
		return "New"
	case "unicode":
		return "IsLetter"
	}
	return "String"
}

// resolveActionContracts renames contracts `parser.action["lhs : rhs"]` to `parser.yyAction_N`.
func resolveActionContracts(P *Prog, sf *SpecFile) error {
	var keys []string
	for k := range sf.Contracts {
		if strings.HasPrefix(k, "parser.action[") {
			keys = append(keys, k)
		}
	}
	if len(keys) == 0 {
		return nil
	}
	prods, err := readGrammar(filepath.Join(P.RepoDir, "parser", "parser.go.y"))
	if err != nil {
		return err
	}
	byText := map[string]int{}
	for _, p := range prods {
		byText[p.String()] = p.num
	}
	for _, k := range keys {
		txt := strings.TrimSuffix(strings.TrimPrefix(k, "parser.action["), "]")
		txt, _ = strconv.Unquote(txt)
		n, ok := byText[txt]
		if !ok {
			return fmt.Errorf("contract %s: no production %q in parser.go.y", k, txt)
		}
		c := sf.Contracts[k]
		delete(sf.Contracts, k)
		c.Key = fmt.Sprintf("parser.yyAction_%d", n)
		if _, dup := sf.Contracts[c.Key]; dup {
			return fmt.Errorf("duplicate action contract for %q", txt)
		}
		sf.Contracts[c.Key] = c
	}
	return nil
}
