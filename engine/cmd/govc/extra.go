package main

// extraChecks: obligation generators that do not come from symbolic execution of a function body
// (constant tables, type-declaration-driven checks). Filled in by tables.go / walker.go.
func extraChecks(P *Prog, prop string) []*Enc { return nil }

func propAssumptions(prop string) []string {
	common := []string{
		"modular verification: each function is proved against its callees' contracts; composition over the program tree is by induction (meta-argument)",
		"allocation always succeeds; stack depth and heap size are not modelled",
		"termination is proved only where a decreases clause is stated",
		"integers are modelled exactly (two's-complement wrap-around via ite/mod on mathematical integers); bitwise operators and variable shifts are uninterpreted functions",
		"slices and strings are at most 2^56 elements long (address-space fact of the Go runtime)",
	}
	return append(common, propSpecificAssumptions[prop]...)
}

var propSpecificAssumptions = map[string][]string{}

func boundedNotes(prop string) []string { return nil }
