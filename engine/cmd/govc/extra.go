package main

import (
	"fmt"
	"go/ast"
	"go/token"
	"go/types"
	"sort"
	"strconv"
	"strings"

	"golang.org/x/tools/go/packages"
)

// extraChecks: obligation generators that do not come from symbolic execution of a function body:
// ground facts read off the typed AST (package tables, import graph) and off the constant parser tables.
func extraChecks(P *Prog, prop string) []*Enc {
	var out []*Enc
	switch prop {
	case "C19":
		out = append(out, packageTableChecks(P)...)
	case "C18":
		out = append(out, importChecks(P)...)
	case "C03":
		out = append(out, tableLemmaChecks(P)...)
	}
	return out
}

func newGroundEnc(P *Prog, key string) *Enc {
	e := &Enc{P: P, key: key, decls: newDecls(), compSort: map[string]string{}, strConsts: map[string]Term{},
		tidsUsed: map[int]bool{}, ifacesUsed: map[string]*types.Interface{}, oblCount: map[string]int{},
		paramVals: map[string]Val{}, paramTypes: map[string]types.Type{}, curBlk: -1}
	e.decls.add("const:hwm0", "(declare-const hwm0 Int)")
	e.pre = &State{reach: TTrue, heaps: map[string]Term{}, hwm: Term{"hwm0", SInt}}
	return e
}

func (e *Enc) groundObl(class, anchor string, props []string, goal Term, desc string, pos token.Pos) {
	e.oblige(class, anchor, props, TTrue, goal, desc, pos)
	// ground facts are independent: do not let one failed fact be assumed for the next ones
	e.body = e.body[:0]
	e.bodyBlk = e.bodyBlk[:0]
}

func findPkg(P *Prog, path string) *packages.Package {
	var found *packages.Package
	packages.Visit(P.Pkgs, nil, func(p *packages.Package) {
		if p.PkgPath == path {
			found = p
		}
	})
	return found
}

// importChecks (C18): the command imports the bundled package tables and the core builtins.
func importChecks(P *Prog) []*Enc {
	e := newGroundEnc(P, "main.imports")
	mainPkg := findPkg(P, ankoPath)
	if mainPkg == nil {
		e.unsupported = "main package not loaded"
		return []*Enc{e}
	}
	for _, want := range []string{ankoPath + "/packages", ankoPath + "/core", ankoPath + "/vm"} {
		_, ok := mainPkg.Imports[want]
		goal := TFalse
		if ok {
			goal = Eq(e.strConst(want), e.strConst(want))
		}
		e.groundObl("table", "import."+want[len(ankoPath)+1:], []string{"C18"}, goal, "the anko command imports "+want, token.NoPos)
	}
	return []*Enc{e}
}

// packageTableChecks (C19): every entry of env.Packages / env.PackageTypes is bound to the Go object whose name
// is the entry's key, in the package whose import path is the table's name. Go's own identifier resolution
// (go/types) is the oracle. Exceptions (local helper types) are declared in the contract file of package packages.
func packageTableChecks(P *Prog) []*Enc {
	pkg := findPkg(P, ankoPath+"/packages")
	e := newGroundEnc(P, "packages.tables")
	if pkg == nil {
		e.unsupported = "package packages not loaded"
		return []*Enc{e}
	}
	e.pkg = pkg.Types
	exceptions := map[string]bool{}
	for _, g := range P.Spec.Guarded {
		_ = g
	}
	for _, x := range P.Spec.TableExceptions {
		exceptions[x] = true
	}
	type entry struct {
		table, key string
		val        ast.Expr
		pos        token.Pos
		isType     bool
	}
	var entries []entry
	tableOf := func(x ast.Expr) (name string, isType bool, ok bool) {
		// env.Packages["p"] or env.PackageTypes["p"]
		ix, ok1 := x.(*ast.IndexExpr)
		if !ok1 {
			return "", false, false
		}
		sel, ok2 := ix.X.(*ast.SelectorExpr)
		if !ok2 || (sel.Sel.Name != "Packages" && sel.Sel.Name != "PackageTypes") {
			return "", false, false
		}
		lit, ok3 := ix.Index.(*ast.BasicLit)
		if !ok3 {
			return "", false, false
		}
		s, err := strconv.Unquote(lit.Value)
		if err != nil {
			return "", false, false
		}
		return s, sel.Sel.Name == "PackageTypes", true
	}
	for _, f := range pkg.Syntax {
		ast.Inspect(f, func(n ast.Node) bool {
			as, ok := n.(*ast.AssignStmt)
			if !ok || len(as.Lhs) != 1 || len(as.Rhs) != 1 {
				return true
			}
			if t, isType, ok := tableOf(as.Lhs[0]); ok {
				if cl, ok := as.Rhs[0].(*ast.CompositeLit); ok {
					for _, el := range cl.Elts {
						kv, ok := el.(*ast.KeyValueExpr)
						if !ok {
							continue
						}
						kl, ok := kv.Key.(*ast.BasicLit)
						if !ok {
							continue
						}
						k, _ := strconv.Unquote(kl.Value)
						entries = append(entries, entry{t, k, kv.Value, kv.Pos(), isType})
					}
				}
				return true
			}
			// env.Packages["p"]["K"] = ...
			if ix, ok := as.Lhs[0].(*ast.IndexExpr); ok {
				if t, isType, ok := tableOf(ix.X); ok {
					if kl, ok := ix.Index.(*ast.BasicLit); ok {
						k, _ := strconv.Unquote(kl.Value)
						entries = append(entries, entry{t, k, as.Rhs[0], as.Pos(), isType})
					}
				}
			}
			return true
		})
	}
	sort.Slice(entries, func(i, j int) bool {
		if entries[i].table != entries[j].table {
			return entries[i].table < entries[j].table
		}
		return entries[i].key < entries[j].key
	})
	// the object an entry's value denotes
	var objectOf func(x ast.Expr) types.Object
	objectOf = func(x ast.Expr) types.Object {
		switch x := x.(type) {
		case *ast.SelectorExpr:
			return pkg.TypesInfo.Uses[x.Sel]
		case *ast.Ident:
			return pkg.TypesInfo.Uses[x]
		case *ast.CallExpr:
			// reflect.ValueOf(X), reflect.TypeOf(X), X.Elem(), conversions T(x), (*T)(nil)
			if sel, ok := x.Fun.(*ast.SelectorExpr); ok {
				if id, ok := sel.X.(*ast.Ident); ok && id.Name == "reflect" && len(x.Args) == 1 {
					return objectOf(x.Args[0])
				}
				if sel.Sel.Name == "Elem" && len(x.Args) == 0 {
					return objectOf(sel.X)
				}
			}
			if tv, ok := pkg.TypesInfo.Types[x.Fun]; ok && tv.IsType() {
				return objectOf(x.Fun)
			}
			return nil
		case *ast.CompositeLit:
			return objectOf(x.Type)
		case *ast.UnaryExpr:
			return objectOf(x.X)
		case *ast.StarExpr:
			return objectOf(x.X)
		case *ast.ParenExpr:
			return objectOf(x.X)
		}
		return nil
	}
	for _, en := range entries {
		name := en.table + "." + en.key
		if exceptions[name] {
			continue
		}
		obj := objectOf(en.val)
		goal := TFalse
		desc := fmt.Sprintf("table entry %q of package table %q is bound to the Go object of that name in that package", en.key, en.table)
		if obj != nil && obj.Pkg() != nil {
			goal = And(Eq(e.strConst(en.key), e.strConst(obj.Name())), Eq(e.strConst(en.table), e.strConst(obj.Pkg().Path())))
			desc += fmt.Sprintf(" (bound to %s.%s)", obj.Pkg().Path(), obj.Name())
		} else {
			desc += " (value is not a reference to a package-level Go object)"
		}
		kind := "value"
		if en.isType {
			kind = "type"
		}
		e.groundObl("table", kind+"."+strings.ReplaceAll(name, "/", "_"), []string{"C19"}, goal, desc, en.pos)
	}
	if len(entries) == 0 {
		e.unsupported = "no package table entries found"
	}
	return []*Enc{e}
}

func propAssumptions(prop string) []string {
	common := []string{
		"modular verification: each function is proved against its callees' contracts; composition over the program tree is by induction (meta-argument)",
		"allocation always succeeds; stack depth and heap size are not modelled",
		"termination is proved only where a decreases clause is stated",
		"integers are modelled exactly (two's-complement wrap-around via ite/mod on mathematical integers); bitwise operators and variable shifts are uninterpreted functions",
		"slices and strings are at most 2^56 elements long (address-space fact of the Go runtime)",
		"go/ssa lowers range loops over slices to an index cell that starts at -1 and is only incremented",
	}
	return append(common, propSpecificAssumptions[prop]...)
}

var propSpecificAssumptions = map[string][]string{}

func boundedNotes(prop string) []string { return nil }
