package main

func tableLemmaChecks(P *Prog) []*Enc { return nil }
