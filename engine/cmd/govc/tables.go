package main

import (
	"fmt"
	"go/ast"
	"go/token"
	"os"
	"path/filepath"
	"sort"
	"strconv"
	"strings"
)

// C03 (d): the LR table lemma.
//
// The constant tables goyacc compiled into parser/parser.go (yyPact, yyAct, yyChk, yyDef, yyExca) are read from
// the typed AST of /repo's working tree; the productions are read from parser/parser.go.y (numbered in order,
// cross-checked against yyR2). lrAction(s, t) transcribes the table lookup of goyacc's driver (trusted contract of
// the driver). For every operator production p of the expression grammar and every token b that can continue an
// expression, one obligation: in EVERY state in which p is reducible, lrAction(s, b) is the action the operator
// table of the property statement dictates (declared in parser/zz_contracts_verif.go as `optable` pragmas):
// reduce p when p binds tighter than b, or equally and the level is left-associative; shift otherwise.

type yaccTables struct {
	exca, act, pact, chk, def, r1, r2 []int
	toknames                         []string
	last, flag                       int
}

type production struct {
	num  int
	lhs  string
	rhs  []string
	prec string
	line int
}

func (p production) String() string { return p.lhs + " : " + strings.Join(p.rhs, " ") }

func intLit(x ast.Expr) (int, bool) {
	switch x := x.(type) {
	case *ast.BasicLit:
		n, err := strconv.Atoi(x.Value)
		return n, err == nil
	case *ast.UnaryExpr:
		if x.Op == token.SUB {
			n, ok := intLit(x.X)
			return -n, ok
		}
	case *ast.ParenExpr:
		return intLit(x.X)
	}
	return 0, false
}

func readYaccTables(P *Prog) (*yaccTables, string, error) {
	pkg := findPkg(P, ankoPath+"/parser")
	if pkg == nil {
		return nil, "", fmt.Errorf("package parser not loaded")
	}
	t := &yaccTables{}
	dir := ""
	found := map[string]bool{}
	for i, f := range pkg.Syntax {
		_ = i
		for _, d := range f.Decls {
			gd, ok := d.(*ast.GenDecl)
			if !ok {
				continue
			}
			for _, sp := range gd.Specs {
				vs, ok := sp.(*ast.ValueSpec)
				if !ok || len(vs.Names) != 1 || len(vs.Values) != 1 {
					continue
				}
				name := vs.Names[0].Name
				if !strings.HasPrefix(name, "yy") {
					continue
				}
				if name == "yyLast" || name == "yyFlag" {
					n, ok := intLit(vs.Values[0])
					if !ok {
						return nil, "", fmt.Errorf("%s is not an integer literal", name)
					}
					if name == "yyLast" {
						t.last = n
					} else {
						t.flag = n
					}
					found[name] = true
					dir = filepath.Dir(P.Fset.Position(f.Pos()).Filename)
					continue
				}
				cl, ok := vs.Values[0].(*ast.CompositeLit)
				if !ok {
					continue
				}
				if name == "yyToknames" {
					for _, el := range cl.Elts {
						bl, ok := el.(*ast.BasicLit)
						if !ok {
							return nil, "", fmt.Errorf("yyToknames: unexpected element")
						}
						s, _ := strconv.Unquote(bl.Value)
						t.toknames = append(t.toknames, s)
					}
					found[name] = true
					continue
				}
				var dst *[]int
				switch name {
				case "yyExca":
					dst = &t.exca
				case "yyAct":
					dst = &t.act
				case "yyPact":
					dst = &t.pact
				case "yyChk":
					dst = &t.chk
				case "yyDef":
					dst = &t.def
				case "yyR1":
					dst = &t.r1
				case "yyR2":
					dst = &t.r2
				}
				if dst == nil {
					continue
				}
				for _, el := range cl.Elts {
					n, ok := intLit(el)
					if !ok {
						return nil, "", fmt.Errorf("%s: element is not an integer literal", name)
					}
					*dst = append(*dst, n)
				}
				found[name] = true
			}
		}
	}
	for _, n := range []string{"yyExca", "yyAct", "yyPact", "yyChk", "yyDef", "yyR1", "yyR2", "yyToknames", "yyLast", "yyFlag"} {
		if !found[n] {
			return nil, "", fmt.Errorf("table %s not found in package parser", n)
		}
	}
	return t, dir, nil
}

// readGrammar tokenises the rules section of a yacc file: productions in order, numbered from 1 (0 is $accept).
func readGrammar(path string) ([]production, error) {
	data, err := os.ReadFile(path)
	if err != nil {
		return nil, err
	}
	src := string(data)
	i := strings.Index(src, "\n%%")
	if i < 0 {
		return nil, fmt.Errorf("no %%%% in %s", path)
	}
	line := 1 + strings.Count(src[:i+3], "\n")
	rest := src[i+3:]
	if j := strings.Index(rest, "\n%%"); j >= 0 {
		rest = rest[:j]
	}
	type tok struct {
		s    string
		line int
	}
	var toks []tok
	for k := 0; k < len(rest); {
		c := rest[k]
		switch {
		case c == '\n':
			line++
			k++
		case c == ' ' || c == '\t' || c == '\r':
			k++
		case c == '/' && k+1 < len(rest) && rest[k+1] == '*':
			e := strings.Index(rest[k+2:], "*/")
			if e < 0 {
				return nil, fmt.Errorf("unterminated comment")
			}
			line += strings.Count(rest[k:k+2+e+2], "\n")
			k += 2 + e + 2
		case c == '/' && k+1 < len(rest) && rest[k+1] == '/':
			for k < len(rest) && rest[k] != '\n' {
				k++
			}
		case c == '\'':
			e := k + 1
			for e < len(rest) && rest[e] != '\'' {
				if rest[e] == '\\' {
					e++
				}
				e++
			}
			toks = append(toks, tok{rest[k : e+1], line})
			k = e + 1
		case c == '{':
			// action block: skip with brace matching, honouring Go string/rune literals and comments
			depth := 0
			e := k
			for e < len(rest) {
				ch := rest[e]
				if ch == '\n' {
					line++
				}
				if ch == '"' || ch == '\'' || ch == '`' {
					q := ch
					e++
					for e < len(rest) && rest[e] != q {
						if rest[e] == '\\' && q != '`' {
							e++
						}
						if rest[e] == '\n' {
							line++
						}
						e++
					}
					e++
					continue
				}
				if ch == '/' && e+1 < len(rest) && rest[e+1] == '/' {
					for e < len(rest) && rest[e] != '\n' {
						e++
					}
					continue
				}
				if ch == '{' {
					depth++
				}
				if ch == '}' {
					depth--
					if depth == 0 {
						e++
						break
					}
				}
				e++
			}
			toks = append(toks, tok{"{}", line})
			k = e
		case c == '|' || c == ':' || c == ';':
			toks = append(toks, tok{string(c), line})
			k++
		case c == '%':
			e := k + 1
			for e < len(rest) && (rest[e] == '_' || rest[e] >= 'a' && rest[e] <= 'z') {
				e++
			}
			toks = append(toks, tok{rest[k:e], line})
			k = e
		default:
			e := k
			for e < len(rest) && (rest[e] == '_' || rest[e] == '.' || rest[e] >= 'a' && rest[e] <= 'z' || rest[e] >= 'A' && rest[e] <= 'Z' || rest[e] >= '0' && rest[e] <= '9') {
				e++
			}
			if e == k {
				return nil, fmt.Errorf("line %d: unexpected character %q in grammar", line, c)
			}
			toks = append(toks, tok{rest[k:e], line})
			k = e
		}
	}
	var prods []production
	lhs := ""
	var cur *production
	flush := func() {
		if cur != nil {
			cur.num = len(prods) + 1
			prods = append(prods, *cur)
			cur = nil
		}
	}
	for k := 0; k < len(toks); k++ {
		t := toks[k]
		switch {
		case k+1 < len(toks) && toks[k+1].s == ":" && t.s != "|" && t.s != "{}" && !strings.HasPrefix(t.s, "'") && !strings.HasPrefix(t.s, "%"):
			flush()
			lhs = t.s
			cur = &production{lhs: lhs, line: t.line}
			k++
		case t.s == "|":
			flush()
			cur = &production{lhs: lhs, line: t.line}
		case t.s == ";":
			flush()
		case t.s == "{}":
			if cur == nil {
				return nil, fmt.Errorf("line %d: action outside a rule", t.line)
			}
			// a mid-rule action would introduce an extra production: not supported (cross-checked against yyR2 by the caller)
		case t.s == "%prec":
			if cur == nil || k+1 >= len(toks) {
				return nil, fmt.Errorf("line %d: stray %%prec", t.line)
			}
			cur.prec = toks[k+1].s
			k++
		default:
			if cur == nil {
				return nil, fmt.Errorf("line %d: symbol %q outside a rule", t.line, t.s)
			}
			cur.rhs = append(cur.rhs, t.s)
		}
	}
	flush()
	return prods, nil
}

// lrLookup: goyacc's driver lookup, in Go (used to pick the table entries a query needs; the obligation itself is
// discharged by the solver over those entries). Returns (shift?, state or production).
func (t *yaccTables) excaLookup(s, tk int) (int, bool) {
	xi := 0
	for {
		if xi+1 >= len(t.exca) {
			return 0, false
		}
		if t.exca[xi] == -1 && t.exca[xi+1] == s {
			break
		}
		xi += 2
	}
	for xi += 2; ; xi += 2 {
		if xi+1 >= len(t.exca) {
			return 0, false
		}
		n := t.exca[xi]
		if n < 0 || n == tk {
			break
		}
	}
	return t.exca[xi+1], true
}

func (t *yaccTables) excaProds(s int) []int {
	var out []int
	xi := 0
	for {
		if xi+1 >= len(t.exca) {
			return nil
		}
		if t.exca[xi] == -1 && t.exca[xi+1] == s {
			break
		}
		xi += 2
	}
	for xi += 2; xi+1 < len(t.exca); xi += 2 {
		out = append(out, t.exca[xi+1])
		if t.exca[xi] < 0 {
			break
		}
	}
	return out
}

type opLevel struct {
	level int
	assoc string // left | right | unary | postfix
}

const shiftBase = 100000

func tableLemmaChecks(P *Prog) []*Enc {
	e := newGroundEnc(P, "parser.lrtable")
	fail := func(err error) []*Enc {
		e.unsupported = err.Error()
		return []*Enc{e}
	}
	tb, dir, err := readYaccTables(P)
	if err != nil {
		return fail(err)
	}
	prods, err := readGrammar(filepath.Join(dir, "parser.go.y"))
	if err != nil {
		return fail(err)
	}
	// cross-check the production numbering against the compiled tables
	if len(prods)+1 != len(tb.r2) {
		return fail(fmt.Errorf("parser.go.y has %d productions, yyR2 has %d entries (parser.go out of date, or a mid-rule action)", len(prods), len(tb.r2)-1))
	}
	for _, p := range prods {
		if tb.r2[p.num] != len(p.rhs) {
			return fail(fmt.Errorf("production %d (%s): %d symbols in parser.go.y, yyR2 says %d", p.num, p, len(p.rhs), tb.r2[p.num]))
		}
	}
	tokNum := map[string]int{}
	for i, n := range tb.toknames {
		tokNum[n] = i + 1
	}
	// operator table of the property statement (pragmas in the contract file)
	levels := map[string]opLevel{}
	for _, row := range P.Spec.OpTable {
		for _, tk := range row.Tokens {
			if _, ok := tokNum[tk]; !ok {
				return fail(fmt.Errorf("optable: token %s is not a token of the grammar", tk))
			}
			key := tk
			if row.Assoc == "unary" {
				key = "unary " + tk
			}
			levels[key] = opLevel{row.Level, row.Assoc}
		}
	}
	if len(levels) == 0 {
		return fail(fmt.Errorf("no optable pragmas found"))
	}
	// the level of an operator production
	prodLevel := func(p production) (opLevel, string, bool) {
		n := len(p.rhs)
		switch {
		case n == 2 && p.rhs[1] == "expr" && p.prec != "":
			l, ok := levels["unary "+p.rhs[0]]
			return l, p.rhs[0], ok
		case n == 3 && p.rhs[0] == "expr" && p.rhs[2] == "expr":
			l, ok := levels[p.rhs[1]]
			if ok && (l.assoc == "left" || l.assoc == "right") {
				return l, p.rhs[1], true
			}
		case n == 5 && p.rhs[0] == "expr" && p.rhs[2] == "expr" && p.rhs[4] == "expr":
			l, ok := levels[p.rhs[1]]
			if ok && (l.assoc == "left" || l.assoc == "right") {
				return l, p.rhs[1], true
			}
		}
		return opLevel{}, "", false
	}
	// lookahead tokens: every binary/ternary operator and every postfix starter of the table
	var looks []string
	for k, l := range levels {
		if l.assoc != "unary" {
			looks = append(looks, k)
		}
	}
	sort.Strings(looks)
	// states in which each production is reducible
	reducible := map[int][]int{}
	for s := range tb.def {
		d := tb.def[s]
		if d > 0 {
			reducible[d] = append(reducible[d], s)
		} else if d == -2 {
			seen := map[int]bool{}
			for _, p := range tb.excaProds(s) {
				if p > 0 && !seen[p] {
					seen[p] = true
					reducible[p] = append(reducible[p], s)
				}
			}
		}
	}
	d := e.decls
	d.add("fun:yyPact", "(declare-fun yyPact (Int) Int)")
	d.add("fun:yyAct", "(declare-fun yyAct (Int) Int)")
	d.add("fun:yyChk", "(declare-fun yyChk (Int) Int)")
	d.add("fun:yyDef", "(declare-fun yyDef (Int) Int)")
	d.add("fun:yyExcaAct", "(declare-fun yyExcaAct (Int Int) Int)")
	d.add("fun:lrAction", fmt.Sprintf("(define-fun lrAction ((s Int) (t Int)) Int (let ((n (+ (yyPact s) t))) (ite (and (> (yyPact s) (- %d)) (>= n 0) (< n %d) (= (yyChk (yyAct n)) t)) (+ %d (yyAct n)) (ite (= (yyDef s) (- 2)) (yyExcaAct s t) (yyDef s)))))", -tb.flag, tb.last, shiftBase))
	fn := func(f string, args ...int) Term {
		ts := make([]Term, len(args))
		for i, a := range args {
			ts[i] = I(int64(a))
		}
		return app(SInt, f, ts...)
	}
	nOps := 0
	for _, p := range prods {
		lp, opTok, ok := prodLevel(p)
		if !ok {
			continue
		}
		nOps++
		states := reducible[p.num]
		for _, b := range looks {
			lb := levels[b]
			expectReduce := false
			switch {
			case lb.assoc == "postfix":
				expectReduce = false
			case lp.level > lb.level:
				expectReduce = true
			case lp.level < lb.level:
				expectReduce = false
			default:
				expectReduce = lp.assoc == "left"
			}
			tk := tokNum[b]
			var facts, goals []Term
			for _, s := range states {
				facts = append(facts, Eq(fn("yyPact", s), I(int64(tb.pact[s]))), Eq(fn("yyDef", s), I(int64(tb.def[s]))))
				if n := tb.pact[s] + tk; tb.pact[s] > tb.flag && n >= 0 && n < tb.last && n < len(tb.act) {
					a := tb.act[n]
					facts = append(facts, Eq(fn("yyAct", n), I(int64(a))))
					if a >= 0 && a < len(tb.chk) {
						facts = append(facts, Eq(fn("yyChk", a), I(int64(tb.chk[a]))))
					}
				}
				if tb.def[s] == -2 {
					if x, ok := tb.excaLookup(s, tk); ok {
						facts = append(facts, Eq(fn("yyExcaAct", s, tk), I(int64(x))))
					}
				}
				if expectReduce {
					goals = append(goals, Eq(fn("lrAction", s, tk), I(int64(p.num))))
				} else {
					goals = append(goals, Ge(fn("lrAction", s, tk), I(shiftBase)))
				}
			}
			goal := TFalse
			what := "shift (the continuation binds tighter)"
			if expectReduce {
				what = "reduce (the production binds tighter, or equally and its level is left-associative)"
			}
			desc := fmt.Sprintf("in each of the %d LR states where `%s` is reducible, the action on lookahead %s is %s", len(states), p, b, what)
			if len(states) > 0 {
				goal = And(goals...)
			} else {
				desc += " — NO state found in which the production is reducible"
			}
			e.groundObl("table", "lr."+opTok+"~"+b+"."+fmt.Sprint(len(p.rhs)), []string{"C03"}, goal, desc, token.NoPos)
			o := e.obls[len(e.obls)-1]
			for _, f := range facts {
				o.Extra = append(o.Extra, "(assert "+f.S+")")
			}
			o.Witness = map[string]string{"kind": "lr", "prod": p.String(), "op": opTok, "arity": fmt.Sprint(len(p.rhs)), "look": b, "expect": map[bool]string{true: "reduce", false: "shift"}[expectReduce]}
		}
	}
	if nOps == 0 {
		e.unsupported = "no operator productions matched the optable"
	}
	return []*Enc{e}
}
