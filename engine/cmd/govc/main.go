package main

import (
	"flag"
	"fmt"
	"os"
	"sort"
	"strings"
)

var (
	verifDir = "/verif"
	repoDir  = "/repo"
)

var concProp = "" // property being checked (C13 switches env functions to the concurrent mode)

func encodeFunc(P *Prog, key string) *Enc {
	fn := P.Funcs[key]
	conc := concProp == "C13" && strings.HasPrefix(key, "env.")
	// pass 1: discover state components
	e1 := newEnc(P, fn)
	e1.concMode = conc
	e1.run(nil)
	known := compSet{}
	for k, v := range e1.compSort {
		known[k] = v
	}
	e := newEnc(P, fn)
	e.concMode = conc
	e.run(known)
	return e
}

var skipFuncs = map[string]string{
	"parser.(*yyParserImpl).Parse": "goyacc LR driver (6500 instructions, goto machine): trusted; its semantic actions are extracted and checked separately",
	"parser.init":                  "generated table initialisers (checked by the table lemma, not symbolically executed)",
	"parser.yyErrorMessage":        "goyacc runtime helper (trusted driver)",
	"parser.yylex1":                "goyacc runtime helper (trusted driver)",
	"parser.yyNewParser":           "goyacc runtime helper (trusted driver)",
	"parser.yyTokname":             "goyacc runtime helper (trusted driver)",
	"parser.yyStatname":            "goyacc runtime helper (trusted driver)",
	"parser.(*yyParserImpl).Lookahead": "goyacc runtime helper (trusted driver)",
	"parser.(*yyParserImpl).Parse$1":   "goyacc runtime helper (trusted driver)",
}

func main() {
	if len(os.Args) < 2 {
		fmt.Fprintln(os.Stderr, "usage: govc check|debug|funcs ...")
		os.Exit(2)
	}
	if v := os.Getenv("GOVC_VERIF"); v != "" {
		verifDir = v
	}
	if v := os.Getenv("GOVC_REPO"); v != "" {
		repoDir = v
	}
	if os.Args[1] == "worker" {
		workerMain()
		return
	}
	startWorkers(16)
	switch os.Args[1] {
	case "debug":
		cmdDebug(os.Args[2:])
	case "funcs":
		P := mustLoad()
		for _, k := range P.FuncKeys {
			c := ""
			if P.Spec.Contracts[k] != nil {
				c = " [contract]"
			}
			fmt.Println(k + c)
		}
	case "check":
		cmdCheck(os.Args[2:])
	case "baseline":
		cmdBaseline(os.Args[2:])
	case "replay":
		cmdReplay(os.Args[2:])
	default:
		fmt.Fprintln(os.Stderr, "unknown command", os.Args[1])
		os.Exit(2)
	}
}

func mustLoad() *Prog {
	P, err := loadProg(repoDir, verifDir+"/trusted")
	if err != nil {
		fmt.Fprintln(os.Stderr, "govc: load:", err)
		os.Exit(2)
	}
	return P
}

func cmdDebug(args []string) {
	fs := flag.NewFlagSet("debug", flag.ExitOnError)
	smt := fs.Bool("smt", false, "print SMT of failing obligations")
	all := fs.Bool("all", false, "print every obligation")
	timeout := fs.Int("t", 10, "solver timeout")
	prop := fs.String("property", "", "only obligations of this property")
	dumpDir := fs.String("dump", "", "write SMT of failing obligations to this directory")
	coverFlag := fs.Bool("cover", false, "vacuity check: every return must not be provably unreachable")
	fs.Parse(args)
	concProp = *prop
	P := mustLoad()
	var keys []string
	for _, k := range P.FuncKeys {
		for _, pat := range fs.Args() {
			if strings.Contains(k, pat) {
				keys = append(keys, k)
				break
			}
		}
	}
	var jobs []job
	for _, k := range keys {
		if r, skip := skipFuncs[k]; skip {
			fmt.Printf("== %s: skipped (%s)\n", k, r)
			continue
		}
		e := encodeFunc(P, k)
		fmt.Printf("== %s: %d obligations, %d body lines, unsupported=%q\n", k, len(e.obls), len(e.body), e.unsupported)
		for _, w := range e.warnings {
			fmt.Println("   warn:", w)
		}
		for h, li := range e.loops {
			fmt.Printf("   loop %d: header block %d at %s (%d blocks) spec=%v\n", li.ordinal, h.Index, e.pos(blockPos(h)), len(li.blocks), li.spec != nil)
		}
		for _, o := range e.obls {
			if *prop != "" && !hasProp(o.Props, *prop) {
				continue
			}
			jobs = append(jobs, job{e, o})
		}
		if *coverFlag {
			for i, c := range e.covers {
				// "goal false under reach" is unsat exactly when the return is provably unreachable
				o := &Obl{Name: fmt.Sprintf("%s/cover/return#%d", e.key, i), Class: "cover", Anchor: "return", Prefix: c.prefix, Reach: c.reach, Goal: TFalse, Desc: "vacuity: return must be reachable", Pos: c.pos, Func: e.key, Blk: c.blk}
				jobs = append(jobs, job{e, o})
			}
		}
	}
	for _, lm := range P.Spec.Lemmas {
		for _, pat := range fs.Args() {
			if strings.Contains("lemma."+lm.Pkg+"."+lm.Label, pat) {
				e := lemmaEnc(P, lm)
				fmt.Printf("== %s: %d obligations unsupported=%q\n", e.key, len(e.obls), e.unsupported)
				for _, o := range e.obls {
					jobs = append(jobs, job{e, o})
				}
				break
			}
		}
	}
	vs := solveAll(jobs, *timeout, 16)
	counts := map[string]int{}
	for _, k := range keys {
		_ = k
	}
	for _, v := range vs {
		counts[v.Status]++
		if v.Status != "discharged" || *all {
			fmt.Printf("%-10s %-10s %6.2fs %s  [%s] %s  {%s}\n", v.Status, v.Solver, v.Time, v.Obl.Name, v.Obl.Pos, v.Obl.Desc, strings.Join(v.Obl.Props, ","))
			if v.Status != "discharged" && *smt {
				fmt.Println(v.SMT)
				fmt.Println(v.Raw)
			}
			if (v.Status != "discharged" || v.Obl.Class == "cover" || *all) && *dumpDir != "" {
				os.MkdirAll(*dumpDir, 0o755)
				os.WriteFile(*dumpDir+"/"+sanitize(v.Obl.Name)+".smt2", []byte(v.SMT), 0o644)
			}
		}
	}
	var ks []string
	for k := range counts {
		ks = append(ks, k)
	}
	sort.Strings(ks)
	for _, k := range ks {
		fmt.Printf("%s=%d ", k, counts[k])
	}
	fmt.Println()
}

func hasProp(ps []string, p string) bool {
	for _, x := range ps {
		if x == p {
			return true
		}
	}
	return false
}
