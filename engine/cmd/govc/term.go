package main

import (
	"fmt"
	"sort"
	"strings"
)

// Term is an SMT-LIB term with its sort. Everything is text; sharing is obtained by
// naming intermediate values with declared constants (see Enc.name).
type Term struct {
	S    string
	Sort string
}

const (
	SBool = "Bool"
	SInt  = "Int"
	SF64  = "(_ FloatingPoint 11 53)"
)

func arrSort(k, v string) string { return "(Array " + k + " " + v + ")" }

func T(s, sort string) Term { return Term{s, sort} }
func I(n int64) Term {
	if n < 0 {
		return Term{fmt.Sprintf("(- %d)", -n), SInt}
	}
	return Term{fmt.Sprintf("%d", n), SInt}
}
func IStr(dec string) Term {
	if strings.HasPrefix(dec, "-") {
		return Term{"(- " + dec[1:] + ")", SInt}
	}
	return Term{dec, SInt}
}

var (
	TTrue  = Term{"true", SBool}
	TFalse = Term{"false", SBool}
)

func app(sort, f string, args ...Term) Term {
	if len(args) == 0 {
		return Term{f, sort}
	}
	var b strings.Builder
	b.WriteString("(")
	b.WriteString(f)
	for _, a := range args {
		b.WriteString(" ")
		b.WriteString(a.S)
	}
	b.WriteString(")")
	return Term{b.String(), sort}
}

func And(ts ...Term) Term {
	var xs []Term
	for _, t := range ts {
		if t.S == "true" {
			continue
		}
		if t.S == "false" {
			return TFalse
		}
		xs = append(xs, t)
	}
	if len(xs) == 0 {
		return TTrue
	}
	if len(xs) == 1 {
		return xs[0]
	}
	return app(SBool, "and", xs...)
}
func Or(ts ...Term) Term {
	var xs []Term
	for _, t := range ts {
		if t.S == "false" {
			continue
		}
		if t.S == "true" {
			return TTrue
		}
		xs = append(xs, t)
	}
	if len(xs) == 0 {
		return TFalse
	}
	if len(xs) == 1 {
		return xs[0]
	}
	return app(SBool, "or", xs...)
}
func Not(t Term) Term {
	if t.S == "true" {
		return TFalse
	}
	if t.S == "false" {
		return TTrue
	}
	if strings.HasPrefix(t.S, "(not ") {
		return Term{t.S[5 : len(t.S)-1], SBool}
	}
	return app(SBool, "not", t)
}
func Imp(a, b Term) Term {
	if a.S == "true" {
		return b
	}
	if a.S == "false" || b.S == "true" {
		return TTrue
	}
	return app(SBool, "=>", a, b)
}
func Eq(a, b Term) Term {
	if a.S == b.S {
		return TTrue
	}
	if a.Sort == SF64 {
		// structural equality on floats is bit equality (NaN==NaN); used for state merging only.
		return app(SBool, "=", a, b)
	}
	return app(SBool, "=", a, b)
}
func Ite(c, a, b Term) Term {
	if c.S == "true" {
		return a
	}
	if c.S == "false" {
		return b
	}
	if a.S == b.S {
		return a
	}
	return app(a.Sort, "ite", c, a, b)
}
func Add(a, b Term) Term { return app(SInt, "+", a, b) }
func Sub(a, b Term) Term { return app(SInt, "-", a, b) }
func Mul(a, b Term) Term { return app(SInt, "*", a, b) }
func Lt(a, b Term) Term  { return app(SBool, "<", a, b) }
func Le(a, b Term) Term  { return app(SBool, "<=", a, b) }
func Ge(a, b Term) Term  { return app(SBool, ">=", a, b) }
func Gt(a, b Term) Term  { return app(SBool, ">", a, b) }
func Select(a, i Term) Term {
	// (Array K V) -> V
	return app(arrValSort(a.Sort), "select", a, i)
}
func Store(a, i, v Term) Term { return app(a.Sort, "store", a, i, v) }

// arrValSort extracts V from "(Array K V)".
func arrValSort(s string) string {
	if !strings.HasPrefix(s, "(Array ") {
		panic("not an array sort: " + s)
	}
	inner := s[len("(Array ") : len(s)-1]
	// K may itself be parenthesised
	depth := 0
	for i := 0; i < len(inner); i++ {
		switch inner[i] {
		case '(':
			depth++
		case ')':
			depth--
		case ' ':
			if depth == 0 {
				return inner[i+1:]
			}
		}
	}
	panic("bad array sort: " + s)
}
func arrKeySort(s string) string {
	inner := s[len("(Array ") : len(s)-1]
	depth := 0
	for i := 0; i < len(inner); i++ {
		switch inner[i] {
		case '(':
			depth++
		case ')':
			depth--
		case ' ':
			if depth == 0 {
				return inner[:i]
			}
		}
	}
	panic("bad array sort: " + s)
}

// Decls collects declarations (functions, constants, axioms) in first-use order.
type Decls struct {
	order []string
	seen  map[string]bool
}

func newDecls() *Decls { return &Decls{seen: map[string]bool{}} }

func (d *Decls) add(key, text string) {
	if d.seen[key] {
		return
	}
	d.seen[key] = true
	d.order = append(d.order, text)
}

func (d *Decls) fun(name string, args []string, ret string) {
	d.add("fun:"+name, fmt.Sprintf("(declare-fun %s (%s) %s)", name, strings.Join(args, " "), ret))
}

func (d *Decls) text() string { return strings.Join(d.order, "\n") + "\n" }

func sanitize(s string) string {
	var b strings.Builder
	for _, r := range s {
		switch {
		case r >= 'a' && r <= 'z', r >= 'A' && r <= 'Z', r >= '0' && r <= '9', r == '_':
			b.WriteRune(r)
		case r == '*':
			b.WriteString("P")
		case r == '.', r == '/':
			b.WriteString("_")
		case r == '[':
			b.WriteString("L")
		case r == ']':
			b.WriteString("J")
		case r == ' ':
		default:
			b.WriteString(fmt.Sprintf("x%x", r))
		}
	}
	return b.String()
}

func sortedKeys[V any](m map[string]V) []string {
	ks := make([]string, 0, len(m))
	for k := range m {
		ks = append(ks, k)
	}
	sort.Strings(ks)
	return ks
}
