package main

import (
	"fmt"
	"go/constant"
	"go/types"
	"strconv"
	"strings"

	"golang.org/x/tools/go/ssa"
)

// SCtx evaluates spec expressions over symbolic states.
type SCtx struct {
	e        *Enc
	st, old  *State
	vars     map[string]Val
	vtypes   map[string]types.Type
	results  []Val
	resTypes *types.Tuple
	pkg      *types.Package
	locals   bool // may refer to named locals of e.fn
	depth    int
	inQuant  bool
	acq      *State
	preferLocals bool // identifiers name the current value of the Go variable (loop invariants), not the parameter's entry value
}

// loaded: a value read from the heap of state sc.st satisfies the type facts of that state (all stored
// references are below the state's allocation mark, lengths are non-negative, ...).
func (sc *SCtx) loaded(v Term, t types.Type) Term {
	if sc.inQuant || t == nil {
		return v
	}
	fact := sc.e.typeAssume(v, t, sc.st.hwm)
	if fact.S == "true" {
		return v
	}
	d := sc.e.def("sv", v)
	sc.e.assume(sc.st.reach, sc.e.typeAssume(d, t, sc.st.hwm))
	return d
}

func (e *Enc) specCtx(st, old *State) *SCtx {
	sc := &SCtx{e: e, st: st, old: old, vars: map[string]Val{}, vtypes: map[string]types.Type{}, pkg: e.pkg, locals: true}
	for k, v := range e.paramVals {
		sc.vars[k] = v
		sc.vtypes[k] = e.paramTypes[k]
	}
	return sc
}

func (sc *SCtx) bindResults(rs []Val, tup *types.Tuple) {
	sc.results = rs
	sc.resTypes = tup
}

func (sc *SCtx) with(st *State) *SCtx {
	n := *sc
	n.st = st
	return &n
}

func (sc *SCtx) evalBool(x SExpr) (Term, error) {
	v, _, err := sc.eval(x)
	if err != nil {
		return Term{}, err
	}
	if v.T.Sort != SBool {
		return Term{}, fmt.Errorf("boolean expected, got sort %q", v.T.Sort)
	}
	return v.T, nil
}

func sortOfSpecType(P *Prog, ty string, pkg *types.Package) (string, types.Type) {
	switch ty {
	case "bool":
		return SBool, types.Typ[types.Bool]
	case "float64":
		return SF64, types.Typ[types.Float64]
	case "int", "Int":
		return SInt, nil // mathematical integer
	case "Ref", "RV", "RT", "Str", "any":
		return SInt, nil
	case "Arr":
		return arrSort(SInt, SInt), nil
	case "ArrB":
		return arrSort(SInt, SBool), nil
	}
	if t, err := P.resolveType(ty, pkg); err == nil {
		return sortOf(t), t
	}
	return SInt, nil
}

func (sc *SCtx) eval(x SExpr) (Val, types.Type, error) {
	e := sc.e
	switch x := x.(type) {
	case SNum:
		n, err := strconv.ParseInt(x.Val, 0, 64)
		if err != nil {
			// big decimal
			return tv(IStr(x.Val)), nil, nil
		}
		return tv(I(n)), nil, nil
	case SBoolL:
		if x.Val {
			return tv(TTrue), types.Typ[types.Bool], nil
		}
		return tv(TFalse), types.Typ[types.Bool], nil
	case SNil:
		return tv(I(0)), nil, nil
	case SStrLit:
		return tv(e.strConst(x.Val)), types.Typ[types.String], nil
	case SIdent:
		return sc.ident(x.Name)
	case SUnary:
		v, t, err := sc.eval(x.X)
		if err != nil {
			return Val{}, nil, err
		}
		switch x.Op {
		case "!":
			if v.T.Sort != SBool {
				return Val{}, nil, fmt.Errorf("! on non-boolean")
			}
			return tv(Not(v.T)), t, nil
		case "-":
			if v.T.Sort == SF64 {
				return tv(app(SF64, "fp.neg", v.T)), t, nil
			}
			return tv(Sub(I(0), v.T)), t, nil
		}
	case SBinary:
		return sc.binary(x)
	case SSel:
		return sc.sel(x)
	case SIndex:
		return sc.index(x)
	case SCall:
		return sc.call(x)
	case SQuant:
		n := *sc
		n.inQuant = true
		n.vars = map[string]Val{}
		n.vtypes = map[string]types.Type{}
		for k, v := range sc.vars {
			n.vars[k] = v
			n.vtypes[k] = sc.vtypes[k]
		}
		var binders []string
		for _, p := range x.Vars {
			srt, gt := sortOfSpecType(e.P, p.Type, sc.pkg)
			e.n++
			name := fmt.Sprintf("q_%s_%d", sanitize(p.Name), e.n)
			n.vars[p.Name] = tv(Term{name, srt})
			n.vtypes[p.Name] = gt
			binders = append(binders, fmt.Sprintf("(%s %s)", name, srt))
		}
		body, err := n.evalBool(x.Body)
		if err != nil {
			return Val{}, nil, err
		}
		q := "forall"
		if !x.Forall {
			q = "exists"
		}
		return tv(Term{fmt.Sprintf("(%s (%s) %s)", q, strings.Join(binders, " "), body.S), SBool}), types.Typ[types.Bool], nil
	}
	return Val{}, nil, fmt.Errorf("unsupported spec expression %T", x)
}

func (sc *SCtx) ident(name string) (Val, types.Type, error) {
	e := sc.e
	if sc.preferLocals && sc.locals {
		if _, isParam := e.paramVals[name]; isParam {
			if as := e.allocByName[name]; len(as) > 0 {
				a := as[0]
				t := a.Type().(*types.Pointer).Elem()
				if pv, ok := e.vals[a]; ok {
					return e.loadVal(sc.st, pv, t), t, nil
				}
			}
		}
	}
	if v, ok := sc.vars[name]; ok {
		return v, sc.vtypes[name], nil
	}
	// captured variables of a closure
	if sc.locals && e.fn != nil {
		for _, fv := range e.fn.FreeVars {
			if fv.Name() == name {
				t := fv.Type().(*types.Pointer).Elem()
				return e.loadVal(sc.st, e.val(sc.st, fv), t), t, nil
			}
		}
	}
	if sc.locals {
		base, ord := name, 0
		if i := strings.Index(name, "#"); i > 0 {
			base = name[:i]
			ord, _ = strconv.Atoi(name[i+1:])
		}
		if as := e.allocByName[base]; len(as) > ord {
			a := as[ord]
			t := a.Type().(*types.Pointer).Elem()
			pv, ok := e.vals[a]
			if !ok {
				// not yet allocated on this path: zero value
				return tv(e.zero(t)), t, nil
			}
			v := e.loadVal(sc.st, pv, t)
			return v, t, nil
		}
	}
	if name == "result" {
		if len(sc.results) == 1 {
			return Val{T: e.asTerm(sc.st, sc.results[0])}, sc.resTypes.At(0).Type(), nil
		}
		if len(sc.results) > 1 {
			return Val{Tuple: sc.results}, sc.resTypes, nil
		}
		return Val{}, nil, fmt.Errorf("result used but function has no result here")
	}
	// named results
	if sc.resTypes != nil {
		for i := 0; i < sc.resTypes.Len(); i++ {
			if sc.resTypes.At(i).Name() == name && i < len(sc.results) {
				return Val{T: e.asTerm(sc.st, sc.results[i])}, sc.resTypes.At(i).Type(), nil
			}
		}
	}
	// ghost variables
	for _, g := range e.P.Spec.Ghosts {
		if g.Name == name {
			srt, gt := sortOfSpecType(e.P, g.Type, sc.pkg)
			return tv(e.comp(sc.st, "X:"+name, srt)), gt, nil
		}
	}
	switch name {
	case "hwm":
		return tv(sc.st.hwm), nil, nil
	case "protected":
		return tv(e.comp(sc.st, "X:protected", SBool)), types.Typ[types.Bool], nil
	}
	// package scope
	if sc.pkg != nil {
		if o := sc.pkg.Scope().Lookup(name); o != nil {
			return sc.object(o)
		}
	}
	return Val{}, nil, fmt.Errorf("unknown identifier %q", name)
}

func (sc *SCtx) object(o types.Object) (Val, types.Type, error) {
	e := sc.e
	switch o := o.(type) {
	case *types.Const:
		switch o.Val().Kind() {
		case constant.Int:
			return tv(IStr(o.Val().ExactString())), o.Type(), nil
		case constant.Bool:
			if constant.BoolVal(o.Val()) {
				return tv(TTrue), o.Type(), nil
			}
			return tv(TFalse), o.Type(), nil
		case constant.String:
			return tv(e.strConst(constant.StringVal(o.Val()))), o.Type(), nil
		case constant.Float:
			f, _ := constant.Float64Val(o.Val())
			return tv(f64Lit(f)), o.Type(), nil
		}
	case *types.Var:
		sp := e.P.SSA.Package(o.Pkg())
		if sp == nil {
			return Val{}, nil, fmt.Errorf("package of %s not loaded", o.Name())
		}
		g, ok := sp.Members[o.Name()].(*ssa.Global)
		if !ok {
			return Val{}, nil, fmt.Errorf("%s is not a global", o.Name())
		}
		pv := e.globalAddr(g)
		t := o.Type()
		if pv.A != nil {
			return tv(e.load(sc.st, pv.A)), t, nil
		}
		// struct / array global: the reference itself stands for the value (pointer semantics for field access)
		return pv, types.NewPointer(t), nil
	}
	return Val{}, nil, fmt.Errorf("unsupported object %s", o.Name())
}

func (sc *SCtx) binary(x SBinary) (Val, types.Type, error) {
	a, at, err := sc.eval(x.X)
	if err != nil {
		return Val{}, nil, err
	}
	// short forms that need both
	b, bt, err := sc.eval(x.Y)
	if err != nil {
		return Val{}, nil, err
	}
	e := sc.e
	A, B := e.asTerm(sc.st, a), e.asTerm(sc.st, b)
	boolT := types.Typ[types.Bool]
	switch x.Op {
	case "&&":
		return tv(And(A, B)), boolT, nil
	case "||":
		return tv(Or(A, B)), boolT, nil
	case "==>":
		return tv(Imp(A, B)), boolT, nil
	case "<==>":
		return tv(Eq(A, B)), boolT, nil
	case "==", "!=":
		if A.Sort != B.Sort {
			return Val{}, nil, fmt.Errorf("sort mismatch in %s: %s vs %s", x.Op, A.Sort, B.Sort)
		}
		var r Term
		if A.Sort == SF64 {
			r = app(SBool, "fp.eq", A, B)
		} else {
			r = Eq(A, B)
		}
		if x.Op == "!=" {
			r = Not(r)
		}
		return tv(r), boolT, nil
	}
	if A.Sort == SF64 {
		m := map[string]string{"<": "fp.lt", "<=": "fp.leq", ">": "fp.gt", ">=": "fp.geq"}
		if f, ok := m[x.Op]; ok {
			return tv(app(SBool, f, A, B)), boolT, nil
		}
		m2 := map[string]string{"+": "fp.add RNE", "-": "fp.sub RNE", "*": "fp.mul RNE", "/": "fp.div RNE"}
		if f, ok := m2[x.Op]; ok {
			return tv(app(SF64, f, A, B)), at, nil
		}
	}
	rt := at
	if rt == nil {
		rt = bt
	}
	switch x.Op {
	case "<":
		return tv(Lt(A, B)), boolT, nil
	case "<=":
		return tv(Le(A, B)), boolT, nil
	case ">":
		return tv(Gt(A, B)), boolT, nil
	case ">=":
		return tv(Ge(A, B)), boolT, nil
	case "+":
		return tv(Add(A, B)), nil, nil
	case "-":
		return tv(Sub(A, B)), nil, nil
	case "*":
		return tv(Mul(A, B)), nil, nil
	case "/":
		return tv(app(SInt, "div", A, B)), nil, nil
	case "%":
		return tv(app(SInt, "mod", A, B)), nil, nil
	}
	return Val{}, nil, fmt.Errorf("unsupported operator %s", x.Op)
}

// deref: if v is a pointer to a struct, it already is the object reference.
func structOf(t types.Type) (types.Type, bool) {
	if t == nil {
		return nil, false
	}
	if p, ok := t.Underlying().(*types.Pointer); ok {
		t = p.Elem()
	}
	if _, ok := t.Underlying().(*types.Struct); ok && !isOpaqueStruct(t) {
		return t, true
	}
	return nil, false
}

func (sc *SCtx) sel(x SSel) (Val, types.Type, error) {
	e := sc.e
	// package-qualified name?
	if id, ok := x.X.(SIdent); ok {
		if _, bound := sc.vars[id.Name]; !bound {
			isLocal := sc.locals && len(e.allocByName[id.Name]) > 0
			if p := e.P.ByName[id.Name]; p != nil && !isLocal && (sc.pkg == nil || sc.pkg.Scope().Lookup(id.Name) == nil) {
				o := p.Scope().Lookup(x.Name)
				if o == nil {
					return Val{}, nil, fmt.Errorf("unknown %s.%s", id.Name, x.Name)
				}
				return sc.object(o)
			}
		}
	}
	v, t, err := sc.eval(x.X)
	if err != nil {
		return Val{}, nil, err
	}
	if len(v.Tuple) > 0 {
		i, err := strconv.Atoi(x.Name)
		if err != nil || i >= len(v.Tuple) {
			return Val{}, nil, fmt.Errorf("bad tuple selector .%s", x.Name)
		}
		var et types.Type
		if tup, ok := t.(*types.Tuple); ok {
			et = tup.At(i).Type()
		}
		return Val{T: e.asTerm(sc.st, v.Tuple[i])}, et, nil
	}
	a, ft, err := sc.fieldOf(v, t, x.Name)
	if err != nil {
		return Val{}, nil, err
	}
	if a.A != nil {
		return tv(sc.loaded(e.load(sc.st, a.A), ft)), ft, nil
	}
	// nested struct / array: reference
	return a, types.NewPointer(ft), nil
}

// fieldOf navigates to field name of the struct (pointer) value v; returns its address value.
func (sc *SCtx) fieldOf(v Val, t types.Type, name string) (Val, types.Type, error) {
	e := sc.e
	st, ok := structOf(t)
	if !ok {
		return Val{}, nil, fmt.Errorf("selector .%s on non-struct type %v", name, t)
	}
	obj, index, _ := types.LookupFieldOrMethod(st, true, sc.pkgOf(st), name)
	fld, ok := obj.(*types.Var)
	if !ok || !fld.IsField() {
		return Val{}, nil, fmt.Errorf("no field %s in %s", name, typeName(st))
	}
	cur := v.T
	curT := st
	var res Val
	for k, i := range index {
		s := curT.Underlying().(*types.Struct)
		res = e.fieldAddr(cur, curT, i)
		ft := s.Field(i).Type()
		if k == len(index)-1 {
			return res, ft, nil
		}
		// embedded: struct value or pointer to struct
		if res.A != nil {
			cur = e.load(sc.st, res.A)
			curT, _ = structOf(ft)
		} else {
			cur = res.T
			curT = ft
		}
	}
	return res, fld.Type(), nil
}

func (sc *SCtx) pkgOf(t types.Type) *types.Package {
	if n, ok := t.(*types.Named); ok && n.Obj().Pkg() != nil {
		return n.Obj().Pkg()
	}
	return sc.pkg
}

func (sc *SCtx) index(x SIndex) (Val, types.Type, error) {
	e := sc.e
	v, t, err := sc.eval(x.X)
	if err != nil {
		return Val{}, nil, err
	}
	iv, _, err := sc.eval(x.I)
	if err != nil {
		return Val{}, nil, err
	}
	i := e.asTerm(sc.st, iv)
	if t == nil {
		return Val{}, nil, fmt.Errorf("index on untyped value")
	}
	a, et, err := sc.elemAddr(v, t, i)
	if err != nil {
		return Val{}, nil, err
	}
	if a.A != nil {
		return tv(sc.loaded(e.load(sc.st, a.A), et)), et, nil
	}
	if a.T.Sort != "" && !isStructVal(et) {
		return a, et, nil
	}
	return a, types.NewPointer(et), nil
}

func (sc *SCtx) elemAddr(v Val, t types.Type, i Term) (Val, types.Type, error) {
	e := sc.e
	switch u := t.Underlying().(type) {
	case *types.Slice:
		e.declSlice()
		base := app(SInt, "sl_base", v.T)
		idx := e.eix(app(SInt, "sl_off", v.T), i)
		if isStructVal(u.Elem()) {
			return tv(e.elemRef(base, idx)), u.Elem(), nil
		}
		return Val{A: &Addr{kind: aElem, heap: "E:" + sortOf(u.Elem()), sort: sortOf(u.Elem()), obj: base, idx: idx, typ: u.Elem()}}, u.Elem(), nil
	case *types.Pointer:
		if at, ok := u.Elem().Underlying().(*types.Array); ok {
			if isStructVal(at.Elem()) {
				return tv(e.elemRef(v.T, i)), at.Elem(), nil
			}
			return Val{A: &Addr{kind: aElem, heap: "E:" + sortOf(at.Elem()), sort: sortOf(at.Elem()), obj: v.T, idx: i, typ: at.Elem()}}, at.Elem(), nil
		}
	case *types.Map:
		return tv(e.mapValue(sc.st, u, v.T, i)), u.Elem(), nil
	case *types.Basic:
		if u.Info()&types.IsString != 0 {
			e.declStr()
			return tv(app(SInt, "strat", v.T, i)), types.Typ[types.Uint8], nil
		}
	}
	return Val{}, nil, fmt.Errorf("cannot index %v", t)
}

func (sc *SCtx) call(x SCall) (Val, types.Type, error) {
	e := sc.e
	boolT := types.Typ[types.Bool]
	arg := func(i int) (Val, types.Type, error) {
		if i >= len(x.Args) {
			return Val{}, nil, fmt.Errorf("%s: missing argument %d", x.Fun, i)
		}
		return sc.eval(x.Args[i])
	}
	switch x.Fun {
	case "old":
		if sc.old == nil {
			return Val{}, nil, fmt.Errorf("old() not available here")
		}
		o := sc.with(sc.old)
		o.preferLocals = false
		return o.eval(x.Args[0])
	case "len", "cap":
		v, t, err := arg(0)
		if err != nil {
			return Val{}, nil, err
		}
		if t == nil {
			return Val{}, nil, fmt.Errorf("len of untyped value")
		}
		switch u := t.Underlying().(type) {
		case *types.Slice:
			e.declSlice()
			return tv(app(SInt, "sl_"+x.Fun, v.T)), nil, nil
		case *types.Basic:
			e.declStr()
			return tv(app(SInt, "strlen", v.T)), nil, nil
		case *types.Pointer:
			if at, ok := u.Elem().Underlying().(*types.Array); ok {
				return tv(I(at.Len())), nil, nil
			}
		case *types.Map:
			return tv(e.mapLen(sc.st, u, v.T)), nil, nil
		}
		return Val{}, nil, fmt.Errorf("len of %v", t)
	case "athead":
		k, ok := x.Args[0].(SNum)
		if !ok || len(x.Args) != 2 {
			return Val{}, nil, fmt.Errorf("athead(LOOP, expr) expects a loop ordinal")
		}
		for _, li := range e.loops {
			if fmt.Sprint(li.ordinal) == k.Val {
				if li.headSt == nil {
					return Val{}, nil, fmt.Errorf("athead(%s, ..) used outside loop %s", k.Val, k.Val)
				}
				return sc.with(li.headSt).eval(x.Args[1])
			}
		}
		return Val{}, nil, fmt.Errorf("athead: no loop %s", k.Val)
	case "fresh":
		v, _, err := arg(0)
		if err != nil {
			return Val{}, nil, err
		}
		if sc.old == nil {
			return Val{}, nil, fmt.Errorf("fresh() needs an old state")
		}
		return tv(And(Ge(e.root(v.T), sc.old.hwm), Lt(e.root(v.T), sc.st.hwm))), boolT, nil
	case "allocated":
		v, _, err := arg(0)
		if err != nil {
			return Val{}, nil, err
		}
		return tv(And(Not(Eq(v.T, I(0))), Lt(e.root(v.T), sc.st.hwm))), boolT, nil
	case "typeis":
		v, _, err := arg(0)
		if err != nil {
			return Val{}, nil, err
		}
		s, ok := x.Args[1].(SStrLit)
		if !ok {
			return Val{}, nil, fmt.Errorf("typeis(x, \"T\") expects a string literal type")
		}
		t, err := e.P.resolveType(s.Val, sc.pkg)
		if err != nil {
			return Val{}, nil, err
		}
		e.declIface()
		return tv(Eq(app(SInt, "dyn", v.T), e.tid(t))), boolT, nil
	case "implements":
		v, _, err := arg(0)
		if err != nil {
			return Val{}, nil, err
		}
		s, ok := x.Args[1].(SStrLit)
		if !ok {
			return Val{}, nil, fmt.Errorf("implements(x, \"I\") expects a string literal type")
		}
		t, err := e.P.resolveType(s.Val, sc.pkg)
		if err != nil {
			return Val{}, nil, err
		}
		e.declIface()
		return tv(And(Not(Eq(v.T, I(0))), app(SBool, e.implPred(t), app(SInt, "dyn", v.T)))), boolT, nil
	case "as":
		// as(x, "T"): payload of interface x viewed as T
		v, _, err := arg(0)
		if err != nil {
			return Val{}, nil, err
		}
		s, ok := x.Args[1].(SStrLit)
		if !ok {
			return Val{}, nil, fmt.Errorf("as(x, \"T\") expects a string literal type")
		}
		t, err := e.P.resolveType(s.Val, sc.pkg)
		if err != nil {
			return Val{}, nil, err
		}
		e.declIface()
		return tv(e.unbox(app(SInt, "ival", v.T), t)), t, nil
	case "iface":
		// iface(x, "T"): x (of static type T) boxed into an interface value
		v, _, err := arg(0)
		if err != nil {
			return Val{}, nil, err
		}
		if len(x.Args) != 2 {
			return Val{}, nil, fmt.Errorf("iface(x, \"T\") expects two arguments")
		}
		s, ok := x.Args[1].(SStrLit)
		if !ok {
			return Val{}, nil, fmt.Errorf("iface(x, \"T\") expects a string literal type")
		}
		t, err := e.P.resolveType(s.Val, sc.pkg)
		if err != nil {
			return Val{}, nil, err
		}
		return tv(e.mkIface(t, v.T)), nil, nil
	case "has":
		m, mt, err := arg(0)
		if err != nil {
			return Val{}, nil, err
		}
		k, _, err := arg(1)
		if err != nil {
			return Val{}, nil, err
		}
		u, ok := mt.Underlying().(*types.Map)
		if !ok {
			return Val{}, nil, fmt.Errorf("has() on non-map")
		}
		return tv(e.mapPresent(sc.st, u, m.T, k.T)), boolT, nil
	case "mapvals", "mapdom":
		m, mt, err := arg(0)
		if err != nil {
			return Val{}, nil, err
		}
		u, ok := mt.Underlying().(*types.Map)
		if !ok {
			return Val{}, nil, fmt.Errorf("%s() on non-map", x.Fun)
		}
		if x.Fun == "mapvals" {
			vs := arrSort(SInt, arrSort(sortOf(u.Key()), sortOf(u.Elem())))
			return tv(Select(e.comp(sc.st, mapVHeap(u), vs), m.T)), nil, nil
		}
		ps := arrSort(SInt, arrSort(sortOf(u.Key()), SBool))
		return tv(Select(e.comp(sc.st, mapPHeap(u), ps), m.T)), nil, nil
	case "elems":
		v, t, err := arg(0)
		if err != nil {
			return Val{}, nil, err
		}
		sl, ok := t.Underlying().(*types.Slice)
		if !ok || isStructVal(sl.Elem()) {
			return Val{}, nil, fmt.Errorf("elems() needs a slice of scalars")
		}
		e.declSlice()
		es := sortOf(sl.Elem())
		return tv(Select(e.comp(sc.st, "E:"+es, arrSort(SInt, arrSort(SInt, es))), app(SInt, "sl_base", v.T))), nil, nil
	case "base", "off":
		v, _, err := arg(0)
		if err != nil {
			return Val{}, nil, err
		}
		e.declSlice()
		return tv(app(SInt, "sl_"+x.Fun, v.T)), nil, nil
	case "ite":
		c, _, err := arg(0)
		if err != nil {
			return Val{}, nil, err
		}
		a, at, err := arg(1)
		if err != nil {
			return Val{}, nil, err
		}
		b, _, err := arg(2)
		if err != nil {
			return Val{}, nil, err
		}
		return tv(Ite(c.T, e.asTerm(sc.st, a), e.asTerm(sc.st, b))), at, nil
	case "select":
		a, _, err := arg(0)
		if err != nil {
			return Val{}, nil, err
		}
		i, _, err := arg(1)
		if err != nil {
			return Val{}, nil, err
		}
		return tv(Select(a.T, i.T)), nil, nil
	case "store":
		a, _, err := arg(0)
		if err != nil {
			return Val{}, nil, err
		}
		i, _, err := arg(1)
		if err != nil {
			return Val{}, nil, err
		}
		v, _, err := arg(2)
		if err != nil {
			return Val{}, nil, err
		}
		return tv(Store(a.T, i.T, v.T)), nil, nil
	case "payload":
		v, _, err := arg(0)
		if err != nil {
			return Val{}, nil, err
		}
		e.declIface()
		return tv(app(SInt, "ival", v.T)), nil, nil
	case "dyn":
		v, _, err := arg(0)
		if err != nil {
			return Val{}, nil, err
		}
		e.declIface()
		return tv(app(SInt, "dyn", v.T)), nil, nil
	case "heap":
		// heap("T.f"): the whole field heap as an array value
		s, ok := x.Args[0].(SStrLit)
		if !ok {
			return Val{}, nil, fmt.Errorf("heap(\"T.f\") expects a string literal")
		}
		name := "H:" + s.Val
		if strings.Contains(s.Val, ":") {
			name = s.Val
		}
		srt, err := e.compSortOf(name)
		if err != nil {
			return Val{}, nil, err
		}
		return tv(e.comp(sc.st, name, srt)), nil, nil
	case "traced":
		return sc.traceCall(x)
	}
	if v, t, ok, err := sc.traceBuiltin(x); ok {
		return v, t, err
	}
	// spec function
	fn := e.P.Spec.Funs[x.Fun]
	if fn == nil {
		return Val{}, nil, fmt.Errorf("unknown spec function %q", x.Fun)
	}
	if len(x.Args) != len(fn.Params) {
		return Val{}, nil, fmt.Errorf("spec fun %s: %d arguments expected", fn.Name, len(fn.Params))
	}
	var args []Val
	for _, a := range x.Args {
		v, _, err := sc.eval(a)
		if err != nil {
			return Val{}, nil, err
		}
		args = append(args, Val{T: e.asTerm(sc.st, v)})
	}
	fpkg := sc.pkg
	if p := e.P.ByName[fn.Pkg]; p != nil && fn.Pkg != "" {
		fpkg = p
	}
	rs, rt := sortOfSpecType(e.P, fn.Ret, fpkg)
	if fn.Body == nil {
		var as []string
		var ts []Term
		for i, p := range fn.Params {
			s, _ := sortOfSpecType(e.P, p.Type, fpkg)
			if args[i].T.Sort != s {
				return Val{}, nil, fmt.Errorf("spec fun %s: argument %d has sort %s, want %s", fn.Name, i, args[i].T.Sort, s)
			}
			as = append(as, s)
			ts = append(ts, args[i].T)
		}
		for _, r := range fn.Reads {
			srt, err := e.compSortOf(r)
			if err != nil {
				return Val{}, nil, fmt.Errorf("spec fun %s reads %s: %v", fn.Name, r, err)
			}
			as = append(as, srt)
			ts = append(ts, e.comp(sc.st, r, srt))
		}
		e.decls.fun("sf_"+fn.Name, as, rs)
		return tv(app(rs, "sf_"+fn.Name, ts...)), rt, nil
	}
	if sc.depth > 8 {
		return Val{}, nil, fmt.Errorf("spec fun %s: expansion too deep (recursive?)", fn.Name)
	}
	n := *sc
	n.depth++
	n.locals = false
	if p := e.P.ByName[fn.Pkg]; p != nil && fn.Pkg != "" {
		n.pkg = p
	}
	n.vars = map[string]Val{}
	n.vtypes = map[string]types.Type{}
	for i, p := range fn.Params {
		_, gt := sortOfSpecType(e.P, p.Type, fpkg)
		n.vars[p.Name] = args[i]
		n.vtypes[p.Name] = gt
	}
	v, t, err := n.eval(fn.Body)
	if err != nil {
		return Val{}, nil, fmt.Errorf("in spec fun %s: %v", fn.Name, err)
	}
	if rt != nil {
		t = rt
	}
	return v, t, nil
}

func (e *Enc) mapLen(st *State, mt *types.Map, m Term) Term {
	ps := arrSort(SInt, arrSort(sortOf(mt.Key()), SBool))
	f := "maplen_" + sanitize(sortOf(mt.Key()))
	e.decls.fun(f, []string{arrSort(sortOf(mt.Key()), SBool)}, "Int")
	r := app(SInt, f, Select(e.comp(st, mapPHeap(mt), ps), m))
	return r
}

// lvalAddr resolves a modifies path to an address value.
func (sc *SCtx) lvalAddr(x SExpr) (Val, types.Type, error) {
	e := sc.e
	switch x := x.(type) {
	case SIdent:
		for _, g := range e.P.Spec.Ghosts {
			if g.Name == x.Name {
				srt, gt := sortOfSpecType(e.P, g.Type, sc.pkg)
				return Val{A: &Addr{kind: aGlob, heap: "X:" + x.Name, sort: srt, typ: gt}}, gt, nil
			}
		}
		if sc.pkg != nil {
			if o, ok := sc.pkg.Scope().Lookup(x.Name).(*types.Var); ok {
				sp := e.P.SSA.Package(o.Pkg())
				if g, ok := sp.Members[o.Name()].(*ssa.Global); ok {
					return e.globalAddr(g), o.Type(), nil
				}
			}
		}
		return Val{}, nil, fmt.Errorf("cannot take address of %s", x.Name)
	case SSel:
		v, t, err := sc.eval(x.X)
		if err != nil {
			return Val{}, nil, err
		}
		return sc.fieldOf(v, t, x.Name)
	case SIndex:
		v, t, err := sc.eval(x.X)
		if err != nil {
			return Val{}, nil, err
		}
		iv, _, err := sc.eval(x.I)
		if err != nil {
			return Val{}, nil, err
		}
		return sc.elemAddr(v, t, iv.T)
	}
	return Val{}, nil, fmt.Errorf("unsupported modifies path")
}

// compSortOf derives the sort of a state component from its name (H:pkg.T.f, MV:k:v, MP:k, E:s, G:pkg.name, X:ghost).
func (e *Enc) compSortOf(name string) (string, error) {
	if s, ok := e.compSort[name]; ok {
		return s, nil
	}
	switch {
	case strings.HasPrefix(name, "MV:"):
		p := strings.SplitN(name[3:], ":", 2)
		if len(p) == 2 {
			return arrSort(SInt, arrSort(p[0], p[1])), nil
		}
	case strings.HasPrefix(name, "MP:"):
		return arrSort(SInt, arrSort(name[3:], SBool)), nil
	case strings.HasPrefix(name, "E:"):
		return arrSort(SInt, arrSort(SInt, name[2:])), nil
	case strings.HasPrefix(name, "H:"):
		i := strings.LastIndex(name, ".")
		if i > 2 {
			t, err := e.P.resolveType(name[2:i], e.pkg)
			if err != nil {
				return "", err
			}
			if st, ok := t.Underlying().(*types.Struct); ok {
				for k := 0; k < st.NumFields(); k++ {
					if st.Field(k).Name() == name[i+1:] {
						return arrSort(SInt, sortOf(st.Field(k).Type())), nil
					}
				}
			}
		}
	case strings.HasPrefix(name, "G:"):
		i := strings.Index(name, ".")
		if i > 2 {
			if p := e.P.ByName[name[2:i]]; p != nil {
				if v, ok := p.Scope().Lookup(name[i+1:]).(*types.Var); ok {
					return sortOf(v.Type()), nil
				}
			}
		}
	case strings.HasPrefix(name, "X:"):
		for _, g := range e.P.Spec.Ghosts {
			if g.Name == name[2:] {
				s, _ := sortOfSpecType(e.P, g.Type, e.pkg)
				return s, nil
			}
		}
	}
	return "", fmt.Errorf("cannot determine the sort of component %s", name)
}
