package main

import (
	"bufio"
	"bytes"
	"context"
	"encoding/json"
	"fmt"
	"go/types"
	"os"
	"os/exec"
	"sort"
	"strings"
	"sync"
	"sync/atomic"
	"time"
)

type Verdict struct {
	Obl     *Obl
	Status  string // discharged | refuted | undecided
	Solver  string
	Time    float64
	Model   string
	Raw     string
	Trivial bool
	SMT     string
}

// latePreamble: facts that depend on everything seen while encoding (string constants, type ids, interface tables).
func (e *Enc) latePreamble() string {
	var b strings.Builder
	if len(e.strOrder) > 0 {
		e.declStr()
	}
	if len(e.strOrder) > 1 {
		b.WriteString("(assert (distinct")
		for _, s := range e.strOrder {
			b.WriteString(" " + e.strConsts[s].S)
		}
		b.WriteString("))\n")
	}
	for _, s := range e.strOrder {
		c := e.strConsts[s].S
		fmt.Fprintf(&b, "(assert (= (strlen %s) %d))\n", c, len(s))
		if len(s) <= 8 {
			for i := 0; i < len(s); i++ {
				fmt.Fprintf(&b, "(assert (= (strat %s %d) %d))\n", c, i, s[i])
			}
		}
	}
	// axioms of the contract files that talk about spec functions used here
	for _, ax := range e.P.Spec.Axioms {
		if !strings.HasPrefix(ax.Label, "auto_") {
			continue // instantiated explicitly by "use" clauses
		}
		calls := map[string]bool{}
		specCalls(ax.Expr, calls)
		used := false
		for c := range calls {
			if e.decls.seen["fun:sf_"+c] {
				used = true
			}
		}
		if e.pkg != nil && pkgShort(e.pkg) == ax.Pkg && e.decls.seen["fun:dyn"] {
			used = true
		}
		if !used {
			continue
		}
		sc := &SCtx{e: e, st: e.pre, old: nil, vars: map[string]Val{}, vtypes: map[string]types.Type{}, pkg: e.P.ByName[ax.Pkg]}
		t, err := sc.evalBool(ax.Expr)
		if err != nil {
			e.warn("axiom %s: %v", ax.Label, err)
			continue
		}
		fmt.Fprintf(&b, "(assert %s)\n", t.S)
	}
	// interface implementation tables over the type ids used in this function
	ids := make([]int, 0, len(e.tidsUsed))
	for id := range e.tidsUsed {
		ids = append(ids, id)
	}
	sort.Ints(ids)
	for _, name := range sortedKeys(e.ifacesUsed) {
		it := e.ifacesUsed[name]
		for _, id := range ids {
			t := e.P.typeByID[id]
			v := "false"
			if types.Implements(t, it) {
				v = "true"
			}
			fmt.Fprintf(&b, "(assert (= (%s %d) %s))\n", name, id, v)
		}
	}
	return b.String()
}

// finalize computes the parts of the query shared by all obligations of this encoding (once, before solving).
func (e *Enc) finalize() {
	e.finalOnce.Do(func() {
		// evaluating axioms may add declarations and type ids; iterate to a fixpoint (two rounds suffice)
		e.latePreamble()
		e.lateText = e.latePreamble()
		e.declText = e.decls.text()
	})
}

func (e *Enc) smtFor(o *Obl) string {
	var b strings.Builder
	b.WriteString("(set-option :produce-models true)\n(set-logic ALL)\n")
	e.finalize()
	b.WriteString(e.declText)
	b.WriteString(e.lateText)
	var anc map[int]bool
	if o.Blk >= 0 && e.anc != nil {
		anc = e.anc[o.Blk]
	}
	for i, l := range e.body[:o.Prefix] {
		if anc != nil && e.bodyBlk[i] >= 0 && !anc[e.bodyBlk[i]] {
			continue
		}
		b.WriteString(l)
		b.WriteString("\n")
	}
	for _, l := range o.Extra {
		b.WriteString(l)
		b.WriteString("\n")
	}
	fmt.Fprintf(&b, "(assert (not (=> %s %s)))\n(check-sat)\n(get-model)\n", o.Reach.S, o.Goal.S)
	return b.String()
}

type solverSpec struct {
	name string
	argv func(timeout int) []string
}

var solvers = []solverSpec{
	{"z3-5.1.0", func(t int) []string { return []string{"z3-new", "-in", fmt.Sprintf("-T:%d", t)} }},
	{"z3-4.8.12", func(t int) []string { return []string{"/usr/bin/z3", "-in", fmt.Sprintf("-T:%d", t)} }},
	{"cvc5-1.0.3", func(t int) []string {
		return []string{"cvc5", "--lang=smt2", fmt.Sprintf("--tlimit=%d", t*1000), "--produce-models"}
	}},
}

func runSolver(sp solverSpec, smt string, timeout int) (status string, out string, secs float64) {
	ctx, cancel := context.WithTimeout(context.Background(), time.Duration(timeout+2)*time.Second)
	defer cancel()
	argv := sp.argv(timeout)
	cmd := exec.CommandContext(ctx, argv[0], argv[1:]...)
	cmd.Stdin = strings.NewReader(smt)
	var buf bytes.Buffer
	cmd.Stdout = &buf
	cmd.Stderr = &buf
	t0 := time.Now()
	_ = cmd.Run()
	secs = time.Since(t0).Seconds()
	out = buf.String()
	first := strings.TrimSpace(out)
	if i := strings.IndexByte(first, '\n'); i >= 0 {
		first = strings.TrimSpace(first[:i])
	}
	switch first {
	case "unsat":
		return "unsat", out, secs
	case "sat":
		return "sat", out, secs
	}
	return "unknown", out, secs
}

func (e *Enc) solve(o *Obl, timeout int, crossCheck bool) *Verdict {
	v := &Verdict{Obl: o}
	if o.Goal.S == "true" || o.Reach.S == "false" {
		v.Status, v.Solver, v.Trivial = "discharged", "trivial", true
		return v
	}
	smt := e.smtFor(o)
	v.SMT = smt
	quantified := strings.Contains(smt, "(forall") || strings.Contains(smt, "(exists")
	for _, sp := range solvers {
		st, out, secs := runSolver(sp, smt, timeout)
		v.Time += secs
		switch st {
		case "unsat":
			v.Status, v.Solver = "discharged", sp.name
			return v
		case "sat":
			if quantified && sp.name != "z3-5.1.0" && false {
				continue
			}
			v.Status, v.Solver, v.Model, v.Raw = "refuted", sp.name, out, out
			return v
		default:
			v.Raw += "[" + sp.name + "] " + firstLines(out, 3) + "\n"
		}
	}
	v.Status = "undecided"
	return v
}

func firstLines(s string, n int) string {
	ls := strings.Split(strings.TrimSpace(s), "\n")
	if len(ls) > n {
		ls = ls[:n]
	}
	return strings.Join(ls, " | ")
}

type job struct {
	e *Enc
	o *Obl
}

// Worker processes: exec from the main process is slow once go/packages has grown the heap (fork cost),
// so a pool of small helper processes (this same binary, "worker" mode) is started before loading and
// runs the solvers.
type workerReq struct {
	SMT     string   `json:"smt"`
	Timeout int      `json:"timeout"`
	Only    string   `json:"only,omitempty"` // run just this solver
	Skip    []string `json:"skip,omitempty"` // solvers not to be asked (distrusted in this run, see vacuityGuard)
}
type workerResp struct {
	Status string  `json:"status"` // unsat sat unknown
	Solver string  `json:"solver"`
	Out    string  `json:"out"`
	Secs   float64 `json:"secs"`
	Raw    string  `json:"raw"`
}

type worker struct {
	cmd *exec.Cmd
	in  *json.Encoder
	out *bufio.Reader
}

var workerPool chan *worker

func startWorkers(n int) {
	workerPool = make(chan *worker, n)
	self, err := os.Executable()
	if err != nil {
		self = os.Args[0]
	}
	for i := 0; i < n; i++ {
		cmd := exec.Command(self, "worker")
		stdin, _ := cmd.StdinPipe()
		stdout, _ := cmd.StdoutPipe()
		cmd.Stderr = os.Stderr
		if err := cmd.Start(); err != nil {
			fmt.Fprintln(os.Stderr, "govc: cannot start worker:", err)
			os.Exit(2)
		}
		workerPool <- &worker{cmd: cmd, in: json.NewEncoder(stdin), out: bufio.NewReaderSize(stdout, 1<<20)}
	}
}

func workerMain() {
	in := bufio.NewReaderSize(os.Stdin, 1<<20)
	out := json.NewEncoder(os.Stdout)
	for {
		line, err := in.ReadBytes('\n')
		if err != nil {
			return
		}
		var req workerReq
		if err := json.Unmarshal(line, &req); err != nil {
			return
		}
		resp := workerResp{Status: "unknown"}
		if req.Only != "" {
			for _, sp := range solvers {
				if sp.name == req.Only {
					st, o, secs := runSolver(sp, req.SMT, req.Timeout)
					resp.Status, resp.Solver, resp.Out, resp.Secs = st, sp.name, o, secs
				}
			}
			out.Encode(&resp)
			continue
		}
		// escalating race: short attempts on each solver first (unstable queries are often easy for one of them)
		type stage struct{ solver, t int }
		short := 3
		if req.Timeout < short {
			short = req.Timeout
		}
		stages := []stage{{0, short}, {1, short}, {2, short}}
		if req.Timeout > short {
			stages = append(stages, stage{0, req.Timeout}, stage{1, req.Timeout})
		}
		for _, sg := range stages {
			var st, o string
			var secs float64
			skipped := false
			for _, sk := range req.Skip {
				if sk == solvers[sg.solver].name {
					skipped = true
				}
			}
			if skipped {
				continue
			}
			if sg.solver == 0 {
				var ok bool
				st, o, secs, ok = persistentZ3(req.SMT, sg.t)
				if !ok {
					st, o, secs = runSolver(solvers[0], req.SMT, sg.t)
				}
			} else {
				st, o, secs = runSolver(solvers[sg.solver], req.SMT, sg.t)
			}
			resp.Secs += secs
			if st == "unsat" || st == "sat" {
				resp.Status, resp.Solver, resp.Out = st, solvers[sg.solver].name, o
				break
			}
			resp.Raw += "[" + solvers[sg.solver].name + fmt.Sprintf(" %ds] ", sg.t) + firstLines(o, 2) + "\n"
		}
		out.Encode(&resp)
	}
}

// distrusted: solvers that answered "unsat" on a background theory no other solver could refute (a solver anomaly); they are not
// asked again in this run. Written only by vacuityGuard, before the obligations are solved.
var distrusted []string

func (w *worker) ask(req *workerReq) workerResp {
	var resp workerResp
	resp.Status = "unknown"
	if req.Only == "" {
		req.Skip = distrusted
	}
	if err := w.in.Encode(req); err != nil {
		resp.Raw = "worker write: " + err.Error()
		return resp
	}
	line, err := w.out.ReadBytes('\n')
	if err != nil {
		resp.Raw = "worker read: " + err.Error()
		return resp
	}
	json.Unmarshal(line, &resp)
	return resp
}

// smtWith: the query of o with extra assertions inserted before the negated goal.
func (e *Enc) smtWith(o *Obl, extra []string) string {
	o2 := *o
	o2.Extra = append(append([]string(nil), o.Extra...), extra...)
	return e.smtFor(&o2)
}

func (e *Enc) solveVia(w *worker, o *Obl, timeout int) *Verdict {
	v := &Verdict{Obl: o}
	if o.Goal.S == "true" || o.Reach.S == "false" {
		v.Status, v.Solver, v.Trivial = "discharged", "trivial", true
		return v
	}
	smt := e.smtFor(o)
	v.SMT = smt
	if o.Budget > 0 && o.Budget < timeout {
		timeout = o.Budget
	}
	first := timeout
	if len(o.Splits) > 1 && timeout > 4 {
		first = 4
	}
	resp := w.ask(&workerReq{SMT: smt, Timeout: first})
	v.Time, v.Solver = resp.Secs, resp.Solver
	switch resp.Status {
	case "unsat":
		v.Status = "discharged"
		return v
	case "sat":
		v.Status, v.Model, v.Raw = "refuted", resp.Out, resp.Out
		return v
	}
	v.Raw = resp.Raw
	// goal splitting: a conjunction is proved conjunct by conjunct (each query is much easier for the solvers)
	if parts := splitGoal(o.Goal.S); len(parts) > 1 {
		all := true
		solver := ""
		for _, p := range parts {
			o2 := *o
			o2.Goal = Term{p, SBool}
			r := w.ask(&workerReq{SMT: e.smtFor(&o2), Timeout: timeout})
			v.Time += r.Secs
			if r.Status == "sat" {
				v.Status, v.Model, v.Raw, v.Solver = "refuted", r.Out, r.Out, r.Solver
				return v
			}
			if r.Status != "unsat" {
				all = false
				break
			}
			solver = r.Solver
		}
		if all {
			v.Status, v.Solver = "discharged", solver+"+goal-split"
			return v
		}
	}
	if len(o.Splits) > 1 {
		// case split on the incoming edges of the last control-flow merge (sound: a cover query checks that the cases are exhaustive)
		all := true
		var cases []string
		for _, sp := range o.Splits {
			cases = append(cases, sp.S)
		}
		queries := [][]string{{"(assert (not (or " + strings.Join(cases, " ") + ")))"}}
		for _, c := range cases {
			queries = append(queries, []string{"(assert " + c + ")"})
		}
		solver := ""
		for _, q := range queries {
			r := w.ask(&workerReq{SMT: e.smtWith(o, q), Timeout: timeout})
			v.Time += r.Secs
			if r.Status == "sat" && len(q) == 1 && q[0] != queries[0][0] {
				v.Status, v.Model, v.Raw, v.Solver = "refuted", r.Out, r.Out, r.Solver
				return v
			}
			if r.Status != "unsat" {
				all = false
				v.Raw += r.Raw
				break
			}
			solver = r.Solver
		}
		if all {
			v.Status, v.Solver = "discharged", solver+"+case-split"
			return v
		}
		if first < timeout {
			r := w.ask(&workerReq{SMT: smt, Timeout: timeout})
			v.Time += r.Secs
			if r.Status == "unsat" {
				v.Status, v.Solver = "discharged", r.Solver
				return v
			}
			if r.Status == "sat" {
				v.Status, v.Model, v.Raw, v.Solver = "refuted", r.Out, r.Out, r.Solver
				return v
			}
		}
	}
	v.Status = "undecided"
	return v
}

func (w *worker) runOne(solver, smt string, timeout int) string {
	if err := w.in.Encode(&workerReq{SMT: smt, Timeout: timeout, Only: solver}); err != nil {
		return "unknown"
	}
	line, err := w.out.ReadBytes('\n')
	if err != nil {
		return "unknown"
	}
	var resp workerResp
	json.Unmarshal(line, &resp)
	return resp.Status
}

// failFast (quick tier, not when writing a baseline): see solveAll.
var failFast bool

const failFastAfter = 24

func solveAll(jobs []job, timeout int, workers int) []*Verdict {
	var failed int64
	res := make([]*Verdict, len(jobs))
	var wg sync.WaitGroup
	ch := make(chan int)
	for w := 0; w < workers; w++ {
		wg.Add(1)
		go func() {
			defer wg.Done()
			wk := <-workerPool
			defer func() { workerPool <- wk }()
			for i := range ch {
				t := timeout
				// once many obligations have failed the verdict of the run is settled (broken tree): spend only the short
				// first stage on the rest, so that a check on a badly broken tree still ends in bounded time
				if failFast && atomic.LoadInt64(&failed) > failFastAfter && t > 3 {
					t = 3
				}
				res[i] = jobs[i].e.solveVia(wk, jobs[i].o, t)
				if res[i].Status != "discharged" {
					atomic.AddInt64(&failed, 1)
				}
			}
		}()
	}
	for i := range jobs {
		ch <- i
	}
	close(ch)
	wg.Wait()
	return res
}

// persistent z3 5.1.0 process per worker (queries separated by (reset)); avoids one exec per obligation.
type pzProc struct {
	cmd *exec.Cmd
	in  *bufio.Writer
	out *bufio.Reader
}

var pz *pzProc
var pzDisabled bool

func pzStart() {
	cmd := exec.Command("z3-new", "-in")
	stdin, err1 := cmd.StdinPipe()
	stdout, err2 := cmd.StdoutPipe()
	cmd.Stderr = nil
	if err1 != nil || err2 != nil || cmd.Start() != nil {
		pzDisabled = true
		pz = nil
		return
	}
	pz = &pzProc{cmd: cmd, in: bufio.NewWriterSize(stdin, 1<<20), out: bufio.NewReaderSize(stdout, 1<<20)}
}

func persistentZ3(smt string, timeout int) (status, out string, secs float64, ok bool) {
	if pzDisabled {
		return "", "", 0, false
	}
	if pz == nil {
		pzStart()
		if pz == nil {
			return "", "", 0, false
		}
	}
	t0 := time.Now()
	const endMark = "<<govc-end>>"
	fmt.Fprintf(pz.in, "(set-option :timeout %d)\n", timeout*1000)
	pz.in.WriteString(smt)
	fmt.Fprintf(pz.in, "\n(echo \"%s\")\n(reset)\n", endMark)
	if err := pz.in.Flush(); err != nil {
		pz.cmd.Process.Kill()
		pz.cmd.Wait()
		pz = nil
		return "unknown", "write error", time.Since(t0).Seconds(), true
	}
	type res struct {
		out string
		err error
	}
	ch := make(chan res, 1)
	p := pz
	go func() {
		var b strings.Builder
		for {
			line, err := p.out.ReadString('\n')
			if strings.Contains(line, endMark) {
				ch <- res{b.String(), nil}
				return
			}
			b.WriteString(line)
			if err != nil {
				ch <- res{b.String(), err}
				return
			}
		}
	}()
	select {
	case r := <-ch:
		secs = time.Since(t0).Seconds()
		if r.err != nil {
			p.cmd.Process.Kill()
			p.cmd.Wait()
			pz = nil
			return "unknown", r.out, secs, true
		}
		first := strings.TrimSpace(r.out)
		if i := strings.IndexByte(first, '\n'); i >= 0 {
			first = strings.TrimSpace(first[:i])
		}
		switch first {
		case "unsat", "sat":
			return first, r.out, secs, true
		}
		return "unknown", r.out, secs, true
	case <-time.After(time.Duration(timeout+3) * time.Second):
		p.cmd.Process.Kill()
		p.cmd.Wait()
		pz = nil
		return "unknown", "timeout (killed)", time.Since(t0).Seconds(), true
	}
}

// splitGoal: "(and a b ...)" -> [a b ...]; "(=> g (and a b ...))" -> ["(=> g a)" ...]. Other goals: nil.
func splitGoal(g string) []string {
	if strings.HasPrefix(g, "(and ") {
		return topLevelArgs(g[5 : len(g)-1])
	}
	if strings.HasPrefix(g, "(=> ") {
		args := topLevelArgs(g[4 : len(g)-1])
		if len(args) == 2 && strings.HasPrefix(args[1], "(and ") {
			inner := topLevelArgs(args[1][5 : len(args[1])-1])
			var out []string
			for _, c := range inner {
				out = append(out, "(=> "+args[0]+" "+c+")")
			}
			return out
		}
	}
	return nil
}

func topLevelArgs(s string) []string {
	var out []string
	depth, start := 0, -1
	for i := 0; i < len(s); i++ {
		c := s[i]
		switch {
		case c == '(':
			if depth == 0 && start < 0 {
				start = i
			}
			depth++
		case c == ')':
			depth--
			if depth == 0 && start >= 0 {
				out = append(out, s[start:i+1])
				start = -1
			}
		case c == ' ':
			if depth == 0 && start >= 0 {
				out = append(out, s[start:i])
				start = -1
			}
		default:
			if depth == 0 && start < 0 {
				start = i
			}
		}
	}
	if start >= 0 {
		out = append(out, s[start:])
	}
	return out
}
