package main

import (
	"bufio"
	"bytes"
	"context"
	"encoding/json"
	"fmt"
	"go/types"
	"os"
	"os/exec"
	"sort"
	"strings"
	"sync"
	"time"
)

type Verdict struct {
	Obl     *Obl
	Status  string // discharged | refuted | undecided
	Solver  string
	Time    float64
	Model   string
	Raw     string
	Trivial bool
	SMT     string
}

// latePreamble: facts that depend on everything seen while encoding (string constants, type ids, interface tables).
func (e *Enc) latePreamble() string {
	var b strings.Builder
	if len(e.strOrder) > 0 {
		e.declStr()
	}
	if len(e.strOrder) > 1 {
		b.WriteString("(assert (distinct")
		for _, s := range e.strOrder {
			b.WriteString(" " + e.strConsts[s].S)
		}
		b.WriteString("))\n")
	}
	for _, s := range e.strOrder {
		c := e.strConsts[s].S
		fmt.Fprintf(&b, "(assert (= (strlen %s) %d))\n", c, len(s))
		if len(s) <= 8 {
			for i := 0; i < len(s); i++ {
				fmt.Fprintf(&b, "(assert (= (strat %s %d) %d))\n", c, i, s[i])
			}
		}
	}
	// axioms of the contract files that talk about spec functions used here
	for _, ax := range e.P.Spec.Axioms {
		if !strings.HasPrefix(ax.Label, "auto_") {
			continue // instantiated explicitly by "use" clauses
		}
		calls := map[string]bool{}
		specCalls(ax.Expr, calls)
		used := false
		for c := range calls {
			if e.decls.seen["fun:sf_"+c] {
				used = true
			}
		}
		if !used {
			continue
		}
		sc := &SCtx{e: e, st: e.pre, old: nil, vars: map[string]Val{}, vtypes: map[string]types.Type{}, pkg: e.pkg}
		t, err := sc.evalBool(ax.Expr)
		if err != nil {
			e.warn("axiom %s: %v", ax.Label, err)
			continue
		}
		fmt.Fprintf(&b, "(assert %s)\n", t.S)
	}
	// interface implementation tables over the type ids used in this function
	ids := make([]int, 0, len(e.tidsUsed))
	for id := range e.tidsUsed {
		ids = append(ids, id)
	}
	sort.Ints(ids)
	for _, name := range sortedKeys(e.ifacesUsed) {
		it := e.ifacesUsed[name]
		for _, id := range ids {
			t := e.P.typeByID[id]
			v := "false"
			if types.Implements(t, it) {
				v = "true"
			}
			fmt.Fprintf(&b, "(assert (= (%s %d) %s))\n", name, id, v)
		}
	}
	return b.String()
}

func (e *Enc) smtFor(o *Obl) string {
	var b strings.Builder
	b.WriteString("(set-option :produce-models true)\n(set-logic ALL)\n")
	late := e.latePreamble()
	b.WriteString(e.decls.text())
	b.WriteString(late)
	for _, l := range e.body[:o.Prefix] {
		b.WriteString(l)
		b.WriteString("\n")
	}
	for _, l := range o.Extra {
		b.WriteString(l)
		b.WriteString("\n")
	}
	fmt.Fprintf(&b, "(assert (not (=> %s %s)))\n(check-sat)\n(get-model)\n", o.Reach.S, o.Goal.S)
	return b.String()
}

type solverSpec struct {
	name string
	argv func(timeout int) []string
}

var solvers = []solverSpec{
	{"z3-5.1.0", func(t int) []string { return []string{"z3-new", "-in", fmt.Sprintf("-T:%d", t)} }},
	{"z3-4.8.12", func(t int) []string { return []string{"/usr/bin/z3", "-in", fmt.Sprintf("-T:%d", t)} }},
	{"cvc5-1.0.3", func(t int) []string {
		return []string{"cvc5", "--lang=smt2", fmt.Sprintf("--tlimit=%d", t*1000), "--produce-models"}
	}},
}

func runSolver(sp solverSpec, smt string, timeout int) (status string, out string, secs float64) {
	ctx, cancel := context.WithTimeout(context.Background(), time.Duration(timeout+2)*time.Second)
	defer cancel()
	argv := sp.argv(timeout)
	cmd := exec.CommandContext(ctx, argv[0], argv[1:]...)
	cmd.Stdin = strings.NewReader(smt)
	var buf bytes.Buffer
	cmd.Stdout = &buf
	cmd.Stderr = &buf
	t0 := time.Now()
	_ = cmd.Run()
	secs = time.Since(t0).Seconds()
	out = buf.String()
	first := strings.TrimSpace(out)
	if i := strings.IndexByte(first, '\n'); i >= 0 {
		first = strings.TrimSpace(first[:i])
	}
	switch first {
	case "unsat":
		return "unsat", out, secs
	case "sat":
		return "sat", out, secs
	}
	return "unknown", out, secs
}

func (e *Enc) solve(o *Obl, timeout int, crossCheck bool) *Verdict {
	v := &Verdict{Obl: o}
	if o.Goal.S == "true" || o.Reach.S == "false" {
		v.Status, v.Solver, v.Trivial = "discharged", "trivial", true
		return v
	}
	smt := e.smtFor(o)
	v.SMT = smt
	quantified := strings.Contains(smt, "(forall") || strings.Contains(smt, "(exists")
	for _, sp := range solvers {
		st, out, secs := runSolver(sp, smt, timeout)
		v.Time += secs
		switch st {
		case "unsat":
			v.Status, v.Solver = "discharged", sp.name
			return v
		case "sat":
			if quantified && sp.name != "z3-5.1.0" && false {
				continue
			}
			v.Status, v.Solver, v.Model, v.Raw = "refuted", sp.name, out, out
			return v
		default:
			v.Raw += "[" + sp.name + "] " + firstLines(out, 3) + "\n"
		}
	}
	v.Status = "undecided"
	return v
}

func firstLines(s string, n int) string {
	ls := strings.Split(strings.TrimSpace(s), "\n")
	if len(ls) > n {
		ls = ls[:n]
	}
	return strings.Join(ls, " | ")
}

type job struct {
	e *Enc
	o *Obl
}

// Worker processes: exec from the main process is slow once go/packages has grown the heap (fork cost),
// so a pool of small helper processes (this same binary, "worker" mode) is started before loading and
// runs the solvers.
type workerReq struct {
	SMT     string `json:"smt"`
	Timeout int    `json:"timeout"`
	Only    string `json:"only,omitempty"` // run just this solver
}
type workerResp struct {
	Status string  `json:"status"` // unsat sat unknown
	Solver string  `json:"solver"`
	Out    string  `json:"out"`
	Secs   float64 `json:"secs"`
	Raw    string  `json:"raw"`
}

type worker struct {
	cmd *exec.Cmd
	in  *json.Encoder
	out *bufio.Reader
}

var workerPool chan *worker

func startWorkers(n int) {
	workerPool = make(chan *worker, n)
	self, err := os.Executable()
	if err != nil {
		self = os.Args[0]
	}
	for i := 0; i < n; i++ {
		cmd := exec.Command(self, "worker")
		stdin, _ := cmd.StdinPipe()
		stdout, _ := cmd.StdoutPipe()
		cmd.Stderr = os.Stderr
		if err := cmd.Start(); err != nil {
			fmt.Fprintln(os.Stderr, "govc: cannot start worker:", err)
			os.Exit(2)
		}
		workerPool <- &worker{cmd: cmd, in: json.NewEncoder(stdin), out: bufio.NewReaderSize(stdout, 1<<20)}
	}
}

func workerMain() {
	in := bufio.NewReaderSize(os.Stdin, 1<<20)
	out := json.NewEncoder(os.Stdout)
	for {
		line, err := in.ReadBytes('\n')
		if err != nil {
			return
		}
		var req workerReq
		if err := json.Unmarshal(line, &req); err != nil {
			return
		}
		resp := workerResp{Status: "unknown"}
		if req.Only != "" {
			for _, sp := range solvers {
				if sp.name == req.Only {
					st, o, secs := runSolver(sp, req.SMT, req.Timeout)
					resp.Status, resp.Solver, resp.Out, resp.Secs = st, sp.name, o, secs
				}
			}
			out.Encode(&resp)
			continue
		}
		if st, o, secs, ok := persistentZ3(req.SMT, req.Timeout); ok {
			resp.Secs += secs
			if st == "unsat" || st == "sat" {
				resp.Status, resp.Solver, resp.Out = st, solvers[0].name, o
				out.Encode(&resp)
				continue
			}
			resp.Raw += "[" + solvers[0].name + "] " + firstLines(o, 3) + "\n"
		}
		for si, sp := range solvers {
			if si == 0 && pz != nil {
				continue
			}
			st, o, secs := runSolver(sp, req.SMT, req.Timeout)
			resp.Secs += secs
			if st == "unsat" || st == "sat" {
				resp.Status, resp.Solver, resp.Out = st, sp.name, o
				break
			}
			resp.Raw += "[" + sp.name + "] " + firstLines(o, 3) + "\n"
		}
		out.Encode(&resp)
	}
}

func (e *Enc) solveVia(w *worker, o *Obl, timeout int) *Verdict {
	v := &Verdict{Obl: o}
	if o.Goal.S == "true" || o.Reach.S == "false" {
		v.Status, v.Solver, v.Trivial = "discharged", "trivial", true
		return v
	}
	smt := e.smtFor(o)
	v.SMT = smt
	if err := w.in.Encode(&workerReq{SMT: smt, Timeout: timeout}); err != nil {
		v.Status, v.Raw = "undecided", "worker write: "+err.Error()
		return v
	}
	line, err := w.out.ReadBytes('\n')
	if err != nil {
		v.Status, v.Raw = "undecided", "worker read: "+err.Error()
		return v
	}
	var resp workerResp
	json.Unmarshal(line, &resp)
	v.Time, v.Solver = resp.Secs, resp.Solver
	switch resp.Status {
	case "unsat":
		v.Status = "discharged"
	case "sat":
		v.Status, v.Model, v.Raw = "refuted", resp.Out, resp.Out
	default:
		v.Status, v.Raw = "undecided", resp.Raw
	}
	return v
}

func (w *worker) runOne(solver, smt string, timeout int) string {
	if err := w.in.Encode(&workerReq{SMT: smt, Timeout: timeout, Only: solver}); err != nil {
		return "unknown"
	}
	line, err := w.out.ReadBytes('\n')
	if err != nil {
		return "unknown"
	}
	var resp workerResp
	json.Unmarshal(line, &resp)
	return resp.Status
}

func solveAll(jobs []job, timeout int, workers int) []*Verdict {
	res := make([]*Verdict, len(jobs))
	var wg sync.WaitGroup
	ch := make(chan int)
	for w := 0; w < workers; w++ {
		wg.Add(1)
		go func() {
			defer wg.Done()
			wk := <-workerPool
			defer func() { workerPool <- wk }()
			for i := range ch {
				res[i] = jobs[i].e.solveVia(wk, jobs[i].o, timeout)
			}
		}()
	}
	for i := range jobs {
		ch <- i
	}
	close(ch)
	wg.Wait()
	return res
}

// persistent z3 5.1.0 process per worker (queries separated by (reset)); avoids one exec per obligation.
type pzProc struct {
	cmd *exec.Cmd
	in  *bufio.Writer
	out *bufio.Reader
}

var pz *pzProc
var pzDisabled bool

func pzStart() {
	cmd := exec.Command("z3-new", "-in")
	stdin, err1 := cmd.StdinPipe()
	stdout, err2 := cmd.StdoutPipe()
	cmd.Stderr = nil
	if err1 != nil || err2 != nil || cmd.Start() != nil {
		pzDisabled = true
		pz = nil
		return
	}
	pz = &pzProc{cmd: cmd, in: bufio.NewWriterSize(stdin, 1<<20), out: bufio.NewReaderSize(stdout, 1<<20)}
}

func persistentZ3(smt string, timeout int) (status, out string, secs float64, ok bool) {
	if pzDisabled {
		return "", "", 0, false
	}
	if pz == nil {
		pzStart()
		if pz == nil {
			return "", "", 0, false
		}
	}
	t0 := time.Now()
	const endMark = "<<govc-end>>"
	fmt.Fprintf(pz.in, "(set-option :timeout %d)\n", timeout*1000)
	pz.in.WriteString(smt)
	fmt.Fprintf(pz.in, "\n(echo \"%s\")\n(reset)\n", endMark)
	if err := pz.in.Flush(); err != nil {
		pz.cmd.Process.Kill()
		pz.cmd.Wait()
		pz = nil
		return "unknown", "write error", time.Since(t0).Seconds(), true
	}
	type res struct {
		out string
		err error
	}
	ch := make(chan res, 1)
	p := pz
	go func() {
		var b strings.Builder
		for {
			line, err := p.out.ReadString('\n')
			if strings.Contains(line, endMark) {
				ch <- res{b.String(), nil}
				return
			}
			b.WriteString(line)
			if err != nil {
				ch <- res{b.String(), err}
				return
			}
		}
	}()
	select {
	case r := <-ch:
		secs = time.Since(t0).Seconds()
		if r.err != nil {
			p.cmd.Process.Kill()
			p.cmd.Wait()
			pz = nil
			return "unknown", r.out, secs, true
		}
		first := strings.TrimSpace(r.out)
		if i := strings.IndexByte(first, '\n'); i >= 0 {
			first = strings.TrimSpace(first[:i])
		}
		switch first {
		case "unsat", "sat":
			return first, r.out, secs, true
		}
		return "unknown", r.out, secs, true
	case <-time.After(time.Duration(timeout+3) * time.Second):
		p.cmd.Process.Kill()
		p.cmd.Wait()
		pz = nil
		return "unknown", "timeout (killed)", time.Since(t0).Seconds(), true
	}
}
