package main

import (
	"fmt"
	"go/types"
	"strings"
	"sync"

	"golang.org/x/tools/go/ssa"
)

// ---------------------------------------------------------------------------
// Globals: which package-level variables are written outside init functions.

var mutGlobalsOnce sync.Once

var initOnly map[*ssa.Function]bool

func isInitFunc(f *ssa.Function) bool {
	n := f.Name()
	if n == "init" || strings.HasPrefix(n, "init#") || (f.Parent() != nil && isInitFunc(f.Parent())) {
		return true
	}
	return initOnly[f]
}

// computeInitOnly: unexported helpers all of whose callers are package initialisers run at init time only.
func computeInitOnly(P *Prog) {
	initOnly = map[*ssa.Function]bool{}
	callers := map[*ssa.Function][]*ssa.Function{}
	escapes := map[*ssa.Function]bool{}
	for _, f := range P.Funcs {
		for _, b := range f.Blocks {
			for _, ins := range b.Instrs {
				if c, ok := ins.(ssa.CallInstruction); ok {
					if g := c.Common().StaticCallee(); g != nil {
						callers[g] = append(callers[g], f)
					}
				}
				// a function used as a value may be called from anywhere
				for _, op := range ins.Operands(nil) {
					if op == nil || *op == nil {
						continue
					}
					if g, ok := (*op).(*ssa.Function); ok {
						if c, isCall := ins.(ssa.CallInstruction); !isCall || c.Common().Value != g {
							escapes[g] = true
						}
					}
				}
			}
		}
	}
	for changed := true; changed; {
		changed = false
		for _, f := range P.Funcs {
			if initOnly[f] || escapes[f] || f.Object() == nil || f.Object().Exported() || len(callers[f]) == 0 {
				continue
			}
			all := true
			for _, c := range callers[f] {
				if !isInitFunc(c) {
					all = false
				}
			}
			if all {
				initOnly[f] = true
				changed = true
			}
		}
	}
}

func (P *Prog) computeMutableGlobals() {
	computeInitOnly(P)
	P.mutGlobals = map[string][]string{}
	for _, k := range P.FuncKeys {
		f := P.Funcs[k]
		if isInitFunc(f) {
			continue
		}
		for _, b := range f.Blocks {
			for _, ins := range b.Instrs {
				st, ok := ins.(*ssa.Store)
				if !ok {
					continue
				}
				if g := rootGlobal(st.Addr); g != nil && g.Pkg != nil && isAnkoPkg(g.Pkg.Pkg) {
					name := pkgShort(g.Pkg.Pkg) + "." + g.Name()
					P.mutGlobals[name] = append(P.mutGlobals[name], k)
				}
			}
		}
	}
}

func rootGlobal(v ssa.Value) *ssa.Global {
	switch v := v.(type) {
	case *ssa.Global:
		return v
	case *ssa.IndexAddr:
		return rootGlobal(v.X)
	case *ssa.FieldAddr:
		return rootGlobal(v.X)
	}
	return nil
}

func (P *Prog) mutableGlobal(name string) bool {
	mutGlobalsOnce.Do(P.computeMutableGlobals)
	_, ok := P.mutGlobals[name]
	return ok
}

// assumeGlobalInvs (re-)assumes the package-level invariants in state st. They are proved at the exit of the
// package initialisers and preserved because no function outside init stores to the globals they mention
// (that frame fact is itself an obligation class, see frameCheck).
func (e *Enc) assumeGlobalInvs(st *State) {
	if isInitFunc(e.fn) {
		return
	}
	for _, cl := range e.P.Spec.GlobalInvs {
		pkg := e.P.ByName[cl.Pkg]
		// an invariant over the package-level variables of a package the function's package does not (transitively)
		// import cannot matter to the function: leave it out (smaller, more stable queries)
		if pkg != nil && e.pkg != nil && pkg != e.pkg && !importsTransitively(e.pkg, pkg, map[*types.Package]bool{}) {
			continue
		}
		sc := &SCtx{e: e, st: st, old: nil, vars: map[string]Val{}, vtypes: map[string]types.Type{}, pkg: pkg}
		t, err := sc.evalBool(cl.Expr)
		if err != nil {
			e.warn("global_inv %s: %v", cl.Label, err)
			continue
		}
		e.assume(st.reach, t)
	}
}

func importsTransitively(from, to *types.Package, seen map[*types.Package]bool) bool {
	if seen[from] {
		return false
	}
	seen[from] = true
	for _, im := range from.Imports() {
		if im == to || importsTransitively(im, to, seen) {
			return true
		}
	}
	return false
}

// checkGlobalInvsAtInitExit: in a package initialiser every global invariant of that package is a postcondition.
func (e *Enc) checkGlobalInvsAtExit(st *State, ins *ssa.Return) {
	if e.fn.Name() != "init" || e.fn.Parent() != nil || e.pkg == nil {
		return
	}
	for _, cl := range e.P.Spec.GlobalInvs {
		if cl.Pkg != pkgShort(e.pkg) {
			continue
		}
		sc := &SCtx{e: e, st: st, old: e.pre, vars: map[string]Val{}, vtypes: map[string]types.Type{}, pkg: e.pkg}
		t, err := sc.evalBool(cl.Expr)
		if err != nil {
			e.unsupported = "global_inv " + cl.Label + ": " + err.Error()
			return
		}
		e.oblige("post", "global_inv."+cl.Label, clauseProps(cl, e.autoProps()), st.reach, t, cl.Text, ins.Pos())
	}
}

func (e *Enc) ghostAssume(st *State, name string, c, old Term) {
	switch name {
	case "polls":
		e.assume(st.reach, Ge(c, old))
	case "trN":
		// the activation trace only grows (and starts empty)
		e.assume(st.reach, And(Ge(c, old), Ge(c, I(0))))
	}
}

// ---------------------------------------------------------------------------
// Frame checks (C14): stores into AST nodes and package-level variables.

func (e *Enc) frameProps() []string { return []string{"C14"} }

func (e *Enc) frameCheck(st *State, ins *ssa.Store, a Val) {
	if e.pkg == nil {
		return
	}
	// per-run state must not escape: a *runInfoStruct is never stored anywhere but a local variable
	if pkgShort(e.pkg) == "vm" {
		if pt, ok := ins.Val.Type().(*types.Pointer); ok {
			if n, ok := pt.Elem().(*types.Named); ok && n.Obj().Name() == "runInfoStruct" {
				if al, ok := ins.Addr.(*ssa.Alloc); !ok || !e.private[al] {
					e.oblige("frame", "escape.runInfo", e.frameProps(), st.reach, TFalse, "a pointer to the per-run state (runInfoStruct) is stored outside the activation", ins.Pos())
				}
			}
		}
	}
	pk := pkgShort(e.pkg)
	if pk != "vm" && pk != "parser" && pk != "env" && pk != "core" && pk != "astutil" && pk != "ast" {
		return
	}
	// package-level variables
	if g := rootGlobal(ins.Addr); g != nil {
		if isInitFunc(e.fn) {
			return
		}
		name := pkgShort(g.Pkg.Pkg) + "." + g.Name()
		goal := TFalse
		if e.c != nil {
			for _, m := range e.c.Modifies {
				if m == g.Name() {
					goal = TTrue
				}
			}
		}
		e.oblige("frame", "global."+name, e.frameProps(), st.reach, goal, "store to package-level variable "+name+" outside init", ins.Pos())
		return
	}
	// fields of ast node types
	if pk == "vm" || pk == "astutil" || pk == "env" || pk == "core" {
		if fa, ok := ins.Addr.(*ssa.FieldAddr); ok {
			stT := fa.X.Type().Underlying().(*types.Pointer).Elem()
			if n, ok := stT.(*types.Named); ok && n.Obj().Pkg() != nil && n.Obj().Pkg().Name() == "ast" && isAnkoPkg(n.Obj().Pkg()) {
				obj := e.val(st, fa.X).T
				// allowed only if the node was allocated by this activation
				fld := stT.Underlying().(*types.Struct).Field(fa.Field).Name()
				e.oblige("frame", "ast."+n.Obj().Name()+"."+fld, e.frameProps(), st.reach, Ge(e.root(obj), e.pre.hwm), "store into a field of an AST node that this activation did not allocate", ins.Pos())
			}
		}
	}
}

func (e *Enc) frameCheckMap(st *State, ins ssa.Instruction, m Term) {
	if e.pkg == nil || isInitFunc(e.fn) {
		return
	}
	var mv ssa.Value
	switch x := ins.(type) {
	case *ssa.MapUpdate:
		mv = x.Map
	case *ssa.Call:
		mv = x.Call.Args[0]
	}
	if mv == nil {
		return
	}
	if g := globalMapRoot(mv); g != nil {
		name := pkgShort(g.Pkg.Pkg) + "." + g.Name()
		e.oblige("frame", "globalmap."+name, e.frameProps(), st.reach, TFalse, "update of package-level map "+name+" (or of a table stored in it) outside init", ins.Pos())
	}
}

// globalMapRoot: the package-level map variable a map value was read from, directly or through lookups
// (env.Packages[name] is a table stored in the package-level map env.Packages).
func globalMapRoot(v ssa.Value) *ssa.Global {
	for depth := 0; depth < 6; depth++ {
		switch x := v.(type) {
		case *ssa.UnOp:
			if g, ok := x.X.(*ssa.Global); ok && g.Pkg != nil && isAnkoPkg(g.Pkg.Pkg) {
				if _, isMap := g.Type().(*types.Pointer).Elem().Underlying().(*types.Map); isMap {
					return g
				}
				return nil
			}
			if a, ok := x.X.(*ssa.Alloc); ok {
				// a local variable assigned exactly once
				var src ssa.Value
				n := 0
				for _, r := range *a.Referrers() {
					if s, ok := r.(*ssa.Store); ok && s.Addr == a {
						src = s.Val
						n++
					}
				}
				if n != 1 {
					return nil
				}
				v = src
				continue
			}
			return nil
		case *ssa.Lookup:
			v = x.X
		case *ssa.Extract:
			v = x.Tuple
		default:
			return nil
		}
	}
	return nil
}

func (e *Enc) frameAtReturn(st *State, ins *ssa.Return) {
	e.checkGlobalInvsAtExit(st, ins)
	e.checkModifies(st, ins)
	e.lockAtReturn(st, ins)
}

// ---------------------------------------------------------------------------
// Panics inside recover regions (filled in by the vm stage)

func (e *Enc) panicsWhen(st *State, anchor string, cl Clause, cond Term, key string, ins ssa.Instruction) {
	prot := TFalse
	if e.protected {
		prot = e.comp(st, "X:protected", SBool)
	}
	e.obligeNoAssume("pre", anchor, clauseProps(cl, e.autoProps()), st.reach, Or(prot, Not(cond)), "callee "+key+" panics when "+cl.Text+" and no recover region is active here", ins.Pos())
	if e.protected {
		// inside a recover region the panic is caught: fork the exceptional state
		ps := st.clone()
		ps.reach = e.def("reach_panic", And(st.reach, cond, prot))
		e.panicStates = append(e.panicStates, ps)
	}
	// normal continuation: the callee did not panic
	e.assume(st.reach, Not(cond))
}

func (e *Enc) finishPanics() {
	// exceptional exits: checked by ensures_on_panic clauses
	if e.c == nil || len(e.c.EnsuresOnPanic) == 0 || len(e.panicStates) == 0 {
		return
	}
	for _, ps := range e.panicStates {
		// after a recovered panic every callee effect is unknown: havoc what callees may modify, then recoverFunc's effect
		st := ps
		ms := newModSet()
		ms.all = true
		// runInfo's own fields are only written by this activation and by callees with contracts; be conservative
		e.havocPanic(st)
		sc := e.specCtx(st, e.pre)
		for i, cl := range e.c.EnsuresOnPanic {
			t, err := sc.evalBool(cl.Expr)
			if err != nil {
				e.unsupported = "ensures_on_panic: " + err.Error()
				return
			}
			anchor := cl.Label
			if anchor == "" {
				anchor = "onpanic" + string(rune('0'+i))
			}
			e.oblige("post_panic", anchor, clauseProps(cl, e.autoProps()), st.reach, t, cl.Text, e.fn.Pos())
		}
	}
}

func (e *Enc) havocPanic(st *State) {}

// ---------------------------------------------------------------------------
// Select hook (C02 polls), lock discipline (C13): see ghost.go

// checkModifies: the function's own modifies clause is an obligation at every return: every pre-existing
// location that is not named by the clause has its entry value.
type frameGoal struct {
	name string
	goal Term
	desc string
}

// ownStoreTargets: locations of the activation's own objects (fields of parameters) that the function stores to
// directly. Inside loops they are exempt from the frame (a field that is written and restored, like runInfo.env,
// need not be listed; the restoration is proved by the ensures at every exit, where the full frame applies).
func (e *Enc) ownStoreTargets() map[string][]Term {
	if e.ownStores != nil {
		return e.ownStores
	}
	e.ownStores = map[string][]Term{}
	for _, b := range e.fn.Blocks {
		for _, ins := range b.Instrs {
			st, ok := ins.(*ssa.Store)
			if !ok {
				continue
			}
			fa, ok := st.Addr.(*ssa.FieldAddr)
			if !ok {
				continue
			}
			// base must be (a load of) a parameter
			var p *ssa.Parameter
			switch x := fa.X.(type) {
			case *ssa.Parameter:
				p = x
			case *ssa.UnOp:
				if a, ok := x.X.(*ssa.Alloc); ok {
					for _, r := range *a.Referrers() {
						if s2, ok := r.(*ssa.Store); ok && s2.Addr == a {
							if pp, ok := s2.Val.(*ssa.Parameter); ok {
								p = pp
							} else {
								p = nil
								break
							}
						}
					}
				}
			}
			if p == nil {
				continue
			}
			structT := fa.X.Type().Underlying().(*types.Pointer).Elem()
			f := structT.Underlying().(*types.Struct).Field(fa.Field)
			if isStructVal(f.Type()) {
				continue
			}
			if pv, ok := e.vals[p]; ok {
				h := "H:" + typeName(structT) + "." + f.Name()
				e.ownStores[h] = append(e.ownStores[h], pv.T)
			}
		}
	}
	return e.ownStores
}

func (e *Enc) checkModifies(st *State, ins *ssa.Return) {
	for _, g := range e.frameGoals(st, nil) {
		e.oblige("frame", "modifies."+g.name, e.framePropsFor(g.name), st.reach, g.goal, g.desc, ins.Pos())
	}
}

// framePropsFor: frame obligations about the parsed tree and about package-level state also belong to C14.
func (e *Enc) framePropsFor(comp string) []string {
	props := e.c.Props
	if strings.HasPrefix(comp, "H:ast.") || strings.HasPrefix(comp, "G:") {
		props = append(append([]string(nil), props...), "C14")
	}
	return props
}

// frameGoals: for every component that differs from its entry value, the formula "only locations named in
// the modifies clause differ". only: restrict to these components (nil = all).
func (e *Enc) frameGoals(st *State, exempt map[string][]Term) []frameGoal {
	var out []frameGoal
	if e.c == nil || e.c.ModifiesAll || e.c.Trusted {
		return nil
	}
	pre := e.pre
	sc := e.specCtx(pre, pre)
	type target struct {
		obj Term
		idx *Term
	}
	targets := map[string][]target{}
	whole := map[string]bool{}
	for _, p := range e.c.Modifies {
		x, err := parseSpecExpr(p)
		if err != nil {
			e.unsupported = "modifies " + p + ": " + err.Error()
			return nil
		}
		if c, ok := x.(SCall); ok {
			switch c.Fun {
			case "elems":
				v, t, err := sc.eval(c.Args[0])
				if err != nil {
					e.unsupported = "modifies " + p + ": " + err.Error()
					return nil
				}
				if pt, ok := t.Underlying().(*types.Pointer); ok {
					if at, ok := pt.Elem().Underlying().(*types.Array); ok {
						targets["E:"+sortOf(at.Elem())] = append(targets["E:"+sortOf(at.Elem())], target{obj: v.T})
						continue
					}
				}
				sl := t.Underlying().(*types.Slice)
				if isStructVal(sl.Elem()) {
					ms := newModSet()
					e.structHeaps(sl.Elem(), ms)
					for k := range ms.heaps {
						whole[k] = true
					}
				} else {
					e.declSlice()
					targets["E:"+sortOf(sl.Elem())] = append(targets["E:"+sortOf(sl.Elem())], target{obj: app(SInt, "sl_base", v.T)})
				}
			case "heap":
				if s, ok := c.Args[0].(SStrLit); ok {
					if strings.Contains(s.Val, ":") {
						whole[s.Val] = true
					} else {
						whole["H:"+s.Val] = true
					}
				}
			case "mapof":
				v, t, err := sc.eval(c.Args[0])
				if err != nil {
					e.unsupported = "modifies " + p + ": " + err.Error()
					return nil
				}
				mt := t.Underlying().(*types.Map)
				targets[mapVHeap(mt)] = append(targets[mapVHeap(mt)], target{obj: v.T})
				targets[mapPHeap(mt)] = append(targets[mapPHeap(mt)], target{obj: v.T})
			}
			continue
		}
		a, t, err := sc.lvalAddr(x)
		if err != nil {
			e.unsupported = "modifies " + p + ": " + err.Error()
			return nil
		}
		if a.A == nil {
			if t != nil && isStructVal(t) {
				e.structTargets(a.T, t, func(heap string, obj Term) { targets[heap] = append(targets[heap], target{obj: obj}) })
			}
			continue
		}
		switch a.A.kind {
		case aHeap:
			targets[a.A.heap] = append(targets[a.A.heap], target{obj: a.A.obj})
		case aElem:
			i := a.A.idx
			targets[a.A.heap] = append(targets[a.A.heap], target{obj: a.A.obj, idx: &i})
		case aGlob:
			whole[a.A.heap] = true
		}
	}
	for _, name := range sortedKeys(st.heaps) {
		cur := st.heaps[name]
		if whole[name] || strings.HasPrefix(name, "X:defer_") || name == "X:protected" || name == "X:section" || name == "X:held" || strings.HasPrefix(name, "X:tr") || strings.HasPrefix(name, "X:visited_") {
			continue
		}
		srt := e.compSort[name]
		old := e.comp(pre, name, srt)
		if cur.S == old.S {
			continue
		}
		if !strings.HasPrefix(srt, "(Array") {
			// scalar component (global / ghost): must be unchanged
			out = append(out, frameGoal{name, Eq(cur, old), "component " + name + " is not in the modifies clause"})
			continue
		}
		e.n++
		o := Term{fmt.Sprintf("fo_%d", e.n), arrKeySort(srt)}
		var excl []Term
		for _, tg := range targets[name] {
			if tg.idx == nil {
				excl = append(excl, Eq(o, tg.obj))
			}
		}
		for _, x := range exempt[name] {
			excl = append(excl, Eq(o, x))
		}
		body := Eq(Select(cur, o), Select(old, o))
		// element-level targets of nested heaps
		var elemT []target
		for _, tg := range targets[name] {
			if tg.idx != nil {
				elemT = append(elemT, tg)
			}
		}
		if len(elemT) > 0 {
			e.n++
			j := Term{fmt.Sprintf("fj_%d", e.n), SInt}
			var ex2 []Term
			for _, tg := range elemT {
				ex2 = append(ex2, And(Eq(o, tg.obj), Eq(j, *tg.idx)))
			}
			body = Term{fmt.Sprintf("(forall ((%s Int)) (=> (not %s) (= (select (select %s %s) %s) (select (select %s %s) %s))))", j.S, Or(ex2...).S, cur.S, o.S, j.S, old.S, o.S, j.S), SBool}
		}
		guard := And(Lt(e.root(o), pre.hwm), Not(Or(excl...)))
		if o.Sort != SInt {
			guard = Not(Or(excl...))
		}
		goal := Term{fmt.Sprintf("(forall ((%s %s)) (! (=> %s %s) :pattern ((select %s %s)) :pattern ((select %s %s))))", o.S, o.Sort, guard.S, body.S, cur.S, o.S, old.S, o.S), SBool}
		out = append(out, frameGoal{name, goal, "only locations named in the modifies clause change in " + name})
	}
	return out
}

// useLemmas assumes the axiom / lemma instances named by the contract's "use" clauses, evaluated in st.
func (e *Enc) useLemmas(st *State, results ...Val) {
	if e.c == nil {
		return
	}
	for _, u := range e.c.Uses {
		var ax *Clause
		for i := range e.P.Spec.Axioms {
			if e.P.Spec.Axioms[i].Label == u.Fun {
				ax = &e.P.Spec.Axioms[i]
			}
		}
		for i := range e.P.Spec.Lemmas {
			if e.P.Spec.Lemmas[i].Label == u.Fun {
				ax = &e.P.Spec.Lemmas[i]
			}
		}
		if ax == nil {
			e.unsupported = "use: unknown axiom or lemma " + u.Fun
			return
		}
		q, ok := ax.Expr.(SQuant)
		if !ok || !q.Forall || len(q.Vars) != len(u.Args) {
			e.unsupported = "use " + u.Fun + ": arity mismatch"
			return
		}
		sc := e.specCtx(st, e.pre)
		sc.preferLocals = true
		if len(results) > 0 {
			sc.bindResults(results, e.fn.Signature.Results())
		}
		n := *sc
		n.vars = map[string]Val{}
		n.vtypes = map[string]types.Type{}
		for k, v := range sc.vars {
			n.vars[k] = v
			n.vtypes[k] = sc.vtypes[k]
		}
		bad := false
		for i, a := range u.Args {
			v, _, err := sc.eval(a)
			if err != nil {
				// the instance may mention locals not yet defined here; skip silently
				bad = true
				break
			}
			n.vars[q.Vars[i].Name] = Val{T: e.def("inst", e.asTerm(st, v))}
			_, gt := sortOfSpecType(e.P, q.Vars[i].Type, e.P.ByName[ax.Pkg])
			n.vtypes[q.Vars[i].Name] = gt
		}
		if bad {
			continue
		}
		n.locals = false
		if p := e.P.ByName[ax.Pkg]; p != nil {
			n.pkg = p
		}
		t, err := n.evalBool(q.Body)
		if err != nil {
			e.unsupported = "use " + u.Fun + ": " + err.Error()
			return
		}
		e.assume(st.reach, t)
	}
}


func (e *Enc) structTargets(obj Term, t types.Type, f func(heap string, obj Term)) {
	s := t.Underlying().(*types.Struct)
	for i := 0; i < s.NumFields(); i++ {
		fa := e.fieldAddr(obj, t, i)
		if fa.A != nil {
			f(fa.A.heap, fa.A.obj)
		} else if isStructVal(s.Field(i).Type()) {
			e.structTargets(fa.T, s.Field(i).Type(), f)
		}
	}
}
