package main

import (
	"go/types"
	"strings"
	"sync"

	"golang.org/x/tools/go/ssa"
)

// ---------------------------------------------------------------------------
// Globals: which package-level variables are written outside init functions.

var mutGlobalsOnce sync.Once

func isInitFunc(f *ssa.Function) bool {
	n := f.Name()
	return n == "init" || strings.HasPrefix(n, "init#") || (f.Parent() != nil && isInitFunc(f.Parent()))
}

func (P *Prog) computeMutableGlobals() {
	P.mutGlobals = map[string][]string{}
	for _, k := range P.FuncKeys {
		f := P.Funcs[k]
		if isInitFunc(f) {
			continue
		}
		for _, b := range f.Blocks {
			for _, ins := range b.Instrs {
				st, ok := ins.(*ssa.Store)
				if !ok {
					continue
				}
				if g := rootGlobal(st.Addr); g != nil && g.Pkg != nil && isAnkoPkg(g.Pkg.Pkg) {
					name := pkgShort(g.Pkg.Pkg) + "." + g.Name()
					P.mutGlobals[name] = append(P.mutGlobals[name], k)
				}
			}
		}
	}
}

func rootGlobal(v ssa.Value) *ssa.Global {
	switch v := v.(type) {
	case *ssa.Global:
		return v
	case *ssa.IndexAddr:
		return rootGlobal(v.X)
	case *ssa.FieldAddr:
		return rootGlobal(v.X)
	}
	return nil
}

func (P *Prog) mutableGlobal(name string) bool {
	mutGlobalsOnce.Do(P.computeMutableGlobals)
	_, ok := P.mutGlobals[name]
	return ok
}

// assumeGlobalInvs (re-)assumes the package-level invariants in state st. They are proved at the exit of the
// package initialisers and preserved because no function outside init stores to the globals they mention
// (that frame fact is itself an obligation class, see frameCheck).
func (e *Enc) assumeGlobalInvs(st *State) {
	if isInitFunc(e.fn) {
		return
	}
	for _, cl := range e.P.Spec.GlobalInvs {
		pkg := e.P.ByName[cl.Pkg]
		sc := &SCtx{e: e, st: st, old: nil, vars: map[string]Val{}, vtypes: map[string]types.Type{}, pkg: pkg}
		t, err := sc.evalBool(cl.Expr)
		if err != nil {
			e.warn("global_inv %s: %v", cl.Label, err)
			continue
		}
		e.assume(st.reach, t)
	}
}

// checkGlobalInvsAtInitExit: in a package initialiser every global invariant of that package is a postcondition.
func (e *Enc) checkGlobalInvsAtExit(st *State, ins *ssa.Return) {
	if e.fn.Name() != "init" || e.fn.Parent() != nil || e.pkg == nil {
		return
	}
	for _, cl := range e.P.Spec.GlobalInvs {
		if cl.Pkg != pkgShort(e.pkg) {
			continue
		}
		sc := &SCtx{e: e, st: st, old: e.pre, vars: map[string]Val{}, vtypes: map[string]types.Type{}, pkg: e.pkg}
		t, err := sc.evalBool(cl.Expr)
		if err != nil {
			e.unsupported = "global_inv " + cl.Label + ": " + err.Error()
			return
		}
		e.oblige("post", "global_inv."+cl.Label, clauseProps(cl, e.autoProps()), st.reach, t, cl.Text, ins.Pos())
	}
}

func (e *Enc) ghostAssume(st *State, name string, c, old Term) {
	switch name {
	case "polls":
		e.assume(st.reach, Ge(c, old))
	}
}

// ---------------------------------------------------------------------------
// Frame checks (C14): stores into AST nodes and package-level variables.

func (e *Enc) frameProps() []string { return []string{"C14"} }

func (e *Enc) frameCheck(st *State, ins *ssa.Store, a Val) {
	if e.pkg == nil {
		return
	}
	pk := pkgShort(e.pkg)
	if pk != "vm" && pk != "parser" && pk != "env" && pk != "core" && pk != "astutil" && pk != "ast" {
		return
	}
	// package-level variables
	if g := rootGlobal(ins.Addr); g != nil {
		if isInitFunc(e.fn) {
			return
		}
		name := pkgShort(g.Pkg.Pkg) + "." + g.Name()
		goal := TFalse
		if e.c != nil {
			for _, m := range e.c.Modifies {
				if m == g.Name() {
					goal = TTrue
				}
			}
		}
		e.oblige("frame", "global."+name, e.frameProps(), st.reach, goal, "store to package-level variable "+name+" outside init", ins.Pos())
		return
	}
	// fields of ast node types
	if pk == "vm" || pk == "astutil" || pk == "env" || pk == "core" {
		if fa, ok := ins.Addr.(*ssa.FieldAddr); ok {
			stT := fa.X.Type().Underlying().(*types.Pointer).Elem()
			if n, ok := stT.(*types.Named); ok && n.Obj().Pkg() != nil && n.Obj().Pkg().Name() == "ast" && isAnkoPkg(n.Obj().Pkg()) {
				obj := e.val(st, fa.X).T
				// allowed only if the node was allocated by this activation
				fld := stT.Underlying().(*types.Struct).Field(fa.Field).Name()
				e.oblige("frame", "ast."+n.Obj().Name()+"."+fld, e.frameProps(), st.reach, Ge(obj, e.pre.hwm), "store into a field of an AST node that this activation did not allocate", ins.Pos())
			}
		}
	}
}

func (e *Enc) frameCheckMap(st *State, ins ssa.Instruction, m Term) {
	if e.pkg == nil || isInitFunc(e.fn) {
		return
	}
	var mv ssa.Value
	switch x := ins.(type) {
	case *ssa.MapUpdate:
		mv = x.Map
	case *ssa.Call:
		mv = x.Call.Args[0]
	}
	if mv == nil {
		return
	}
	if u, ok := mv.(*ssa.UnOp); ok {
		if g, ok := u.X.(*ssa.Global); ok && g.Pkg != nil && isAnkoPkg(g.Pkg.Pkg) {
			name := pkgShort(g.Pkg.Pkg) + "." + g.Name()
			e.oblige("frame", "globalmap."+name, e.frameProps(), st.reach, TFalse, "update of package-level map "+name+" outside init", ins.Pos())
		}
	}
}

func (e *Enc) frameAtReturn(st *State, ins *ssa.Return) {
	e.checkGlobalInvsAtExit(st, ins)
	e.lockAtReturn(st, ins)
}

// ---------------------------------------------------------------------------
// Panics inside recover regions (filled in by the vm stage)

func (e *Enc) panicsWhen(st *State, anchor string, cl Clause, cond Term, key string, ins ssa.Instruction) {
	prot := TFalse
	if e.protected {
		prot = e.comp(st, "X:protected", SBool)
	}
	if prot.S == "true" {
		// inside a recover region: the panic is caught; fork the exceptional state
		ps := st.clone()
		ps.reach = e.def("reach_panic", And(st.reach, cond))
		e.panicStates = append(e.panicStates, ps)
		e.assume(st.reach, Not(cond))
		return
	}
	e.oblige("pre", anchor, clauseProps(cl, e.autoProps()), st.reach, Or(prot, Not(cond)), "callee "+key+" panics when "+cl.Text+" (no recover region here)", ins.Pos())
}

func (e *Enc) finishPanics() {
	// exceptional exits: checked by ensures_on_panic clauses
	if e.c == nil || len(e.c.EnsuresOnPanic) == 0 || len(e.panicStates) == 0 {
		return
	}
	for _, ps := range e.panicStates {
		// after a recovered panic every callee effect is unknown: havoc what callees may modify, then recoverFunc's effect
		st := ps
		ms := newModSet()
		ms.all = true
		// runInfo's own fields are only written by this activation and by callees with contracts; be conservative
		e.havocPanic(st)
		sc := e.specCtx(st, e.pre)
		for i, cl := range e.c.EnsuresOnPanic {
			t, err := sc.evalBool(cl.Expr)
			if err != nil {
				e.unsupported = "ensures_on_panic: " + err.Error()
				return
			}
			anchor := cl.Label
			if anchor == "" {
				anchor = "onpanic" + string(rune('0'+i))
			}
			e.oblige("post_panic", anchor, clauseProps(cl, e.autoProps()), st.reach, t, cl.Text, e.fn.Pos())
		}
	}
}

func (e *Enc) havocPanic(st *State) {}

// ---------------------------------------------------------------------------
// Select hook (C02 polls), lock discipline (C13): see ghost.go
