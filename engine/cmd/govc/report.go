package main

import (
	"crypto/sha256"
	"encoding/json"
	"flag"
	"fmt"
	"os"
	"path/filepath"
	"sort"
	"strconv"
	"strings"
	"sync"
	"time"
)

type Baseline struct {
	Property string         `json:"property"`
	Groups   map[string]int `json:"groups"`                   // group -> number of discharged obligations
	Unproved []string       `json:"unproved,omitempty"`       // obligations generated but not discharged at baseline time: not claimed; the quick tier does not re-try them
	Partial  map[string]int `json:"partial_groups,omitempty"` // groups that also had undischarged members at baseline (name-level matching only)
	Names    []string       `json:"names"`
	Funcs    []string       `json:"functions_under_contract"`
}

type KnownFinding struct {
	Property   string `json:"property"`
	Obligation string `json:"obligation"` // exact obligation name, or a group (func/class/anchor)
	Status     string `json:"status"`     // known | fixed
	Commit     string `json:"commit,omitempty"`
	What       string `json:"what"`
	Witness    string `json:"witness,omitempty"`
}

func loadKnown() []KnownFinding {
	var out struct {
		Findings []KnownFinding `json:"findings"`
	}
	data, err := os.ReadFile(filepath.Join(verifDir, "known_findings.json"))
	if err != nil {
		return nil
	}
	if err := json.Unmarshal(data, &out); err != nil {
		fmt.Fprintln(os.Stderr, "govc: known_findings.json:", err)
		os.Exit(2)
	}
	return out.Findings
}

func loadBaseline(prop string) *Baseline {
	data, err := os.ReadFile(filepath.Join(verifDir, "baseline", prop+".json"))
	if err != nil {
		return nil
	}
	var b Baseline
	if err := json.Unmarshal(data, &b); err != nil {
		fmt.Fprintln(os.Stderr, "govc: baseline:", err)
		os.Exit(2)
	}
	return &b
}

type encResult struct {
	key string
	e   *Enc
}

// encodeAll encodes every function of the anko packages (in parallel) plus the lemmas.
func encodeAll(P *Prog) []*Enc {
	P.mutableGlobal("") // force the once
	var keys []string
	for _, k := range P.FuncKeys {
		if _, skip := skipFuncs[k]; skip {
			continue
		}
		if c := P.Spec.Contracts[k]; c != nil && c.Trusted {
			continue // contract assumed, body not checked (listed in the evidence as a contract pragma)
		}
		if strings.HasPrefix(k, "parser.yyAction_") && P.Spec.Contracts[k] == nil {
			continue // extracted semantic action without a contract: stays inside the trusted driver
		}
		keys = append(keys, k)
	}
	res := make([]*Enc, len(keys))
	var wg sync.WaitGroup
	sem := make(chan struct{}, 16)
	for i, k := range keys {
		wg.Add(1)
		go func(i int, k string) {
			defer wg.Done()
			sem <- struct{}{}
			defer func() { <-sem }()
			defer func() {
				if r := recover(); r != nil {
					e := newEnc(P, P.Funcs[k])
					e.unsupported = fmt.Sprintf("engine panic: %v", r)
					res[i] = e
				}
			}()
			res[i] = encodeFunc(P, k)
		}(i, k)
	}
	wg.Wait()
	for _, lm := range P.Spec.Lemmas {
		res = append(res, lemmaEnc(P, lm))
	}
	return res
}

type checkResult struct {
	prop       string
	tier       string
	verdicts   []*Verdict
	encs       []*Enc
	violations []string
	known      []string
	undecided  []string
	wall       float64
}

func cmdCheck(args []string) {
	fs := flag.NewFlagSet("check", flag.ExitOnError)
	prop := fs.String("property", "", "property id")
	tier := fs.String("tier", "quick", "quick|thorough")
	writeBase := fs.Bool("write-baseline", false, "write the baseline file from this run (only on the unchanged tree)")
	fs.Parse(args)
	if *prop == "" {
		fmt.Fprintln(os.Stderr, "govc check: --property required")
		os.Exit(2)
	}
	if t := os.Getenv("VERIF_TIER"); t != "" && (t == "quick" || t == "thorough") {
		*tier = t
	}
	seed := 0
	if s := os.Getenv("VERIF_SEED"); s != "" {
		seed, _ = strconv.Atoi(s)
	}
	t0 := time.Now()
	P := mustLoad()
	code := runCheck(P, *prop, *tier, seed, *writeBase, t0)
	os.Exit(code)
}

func cmdBaseline(args []string) {
	cmdCheck(append([]string{"--write-baseline"}, args...))
}

func runCheck(P *Prog, prop, tier string, seed int, writeBase bool, t0 time.Time) int {
	timeout := 10
	if tier == "thorough" {
		timeout = 60
	}
	concProp = prop
	tEnc := time.Now()
	encs := encodeAll(P)
	fmt.Fprintf(os.Stderr, "govc: load %.1fs, encode %.1fs\n", tEnc.Sub(t0).Seconds(), time.Since(tEnc).Seconds())
	extra := extraChecks(P, prop) // non-SSA obligation generators (tables, walker types, ...)
	encs = append(encs, extra...)
	var jobs []job
	var unsupported []string
	funcsUnder := map[string]bool{}
	for _, e := range encs {
		if e.unsupported != "" {
			if e.c != nil && contractMentions(e.c, prop) {
				unsupported = append(unsupported, e.key+": "+e.unsupported)
			}
			continue
		}
		for _, o := range e.obls {
			if hasProp(o.Props, prop) {
				jobs = append(jobs, job{e, o})
				if e.c != nil || e.fn == nil {
					funcsUnder[e.key] = true
				}
			}
		}
	}
	// quick tier: obligations that were not proved at baseline time are not claimed and not re-tried (thorough tier tries them)
	skipped := 0
	if b0 := loadBaseline(prop); b0 != nil && !writeBase && tier == "quick" {
		unp := map[string]bool{}
		for _, n := range b0.Unproved {
			unp[n] = true
		}
		kf := loadKnown()
		kept := jobs[:0]
		for _, j := range jobs {
			if unp[j.o.Name] && matchKnown(kf, prop, j.o) == nil {
				skipped++
				continue
			}
			kept = append(kept, j)
		}
		jobs = kept
	}
	if skipped > 0 {
		fmt.Printf("govc: %d obligations that were not proved at baseline time are not claimed and were skipped in the quick tier\n", skipped)
	}
	// deterministic order, rotated by the seed (verdicts do not depend on it)
	sort.SliceStable(jobs, func(i, j int) bool { return jobs[i].o.Name < jobs[j].o.Name })
	if seed != 0 && len(jobs) > 0 {
		k := ((seed % len(jobs)) + len(jobs)) % len(jobs)
		jobs = append(jobs[k:], jobs[:k]...)
	}
	base := loadBaseline(prop)
	// obligations that were not proved at baseline cannot become violations: give them a short budget only
	if base != nil && !writeBase {
		inNames := map[string]bool{}
		for _, n := range base.Names {
			inNames[n] = true
		}
		for i := range jobs {
			o := jobs[i].o
			_, g := base.Groups[o.Group()]
			if !inNames[o.Name] && !(g && base.Partial[o.Group()] == 0) {
				o.Budget = 2
			}
		}
	}
	// vacuity guards: (1) the background theory of every encoding (declarations, axioms, trusted facts) must not be
	// contradictory; (2) thorough tier: in every function at least one return must not be provably unreachable.
	if msg := vacuityGuard(encs, prop, tier); msg != "" {
		fmt.Println("ENGINE-ERROR: vacuity guard:", msg)
		return 2
	}
	failFast = tier == "quick" && !writeBase && base != nil
	vs := solveAll(jobs, timeout, 16)
	failFast = false
	// second chance for claimed obligations that came back undecided (a loaded machine must not cause an alarm):
	// re-run them with a three times larger budget and little parallelism
	if base != nil && !writeBase {
		inNames := map[string]bool{}
		for _, n := range base.Names {
			inNames[n] = true
		}
		var retry []job
		var idx []int
		for i, v := range vs {
			if v.Status == "undecided" && inNames[v.Obl.Name] {
				retry = append(retry, jobs[i])
				idx = append(idx, i)
			}
		}
		// (more than a dozen undecided claimed obligations is a broken tree, not a loaded machine: no retry then)
		if len(retry) > 0 && len(retry) <= 12 {
			rs := solveAll(retry, timeout*2, 8)
			for k, r := range rs {
				r.Time += vs[idx[k]].Time
				vs[idx[k]] = r
			}
		}
	}
	if tier == "thorough" {
		if msg := crossCheck(jobs, vs); msg != "" {
			fmt.Println("ENGINE-ERROR: solver disagreement:", msg)
			return 2
		}
	}
	known := loadKnown()
	outDir := filepath.Join(verifDir, "out", "replay", prop)
	os.MkdirAll(outDir, 0o755)

	var violations, knownSeen, undecided []string
	discharged := 0
	byClass := map[string]int{}
	byBackend := map[string]int{}
	solverTime, maxTime := 0.0, 0.0
	groupsNow := map[string]int{}
	var names []string
	for _, v := range vs {
		byClass[v.Obl.Class]++
		solverTime += v.Time
		if v.Time > maxTime {
			maxTime = v.Time
		}
		if v.Status == "discharged" {
			discharged++
			byBackend[v.Solver]++
			groupsNow[v.Obl.Group()]++
			names = append(names, v.Obl.Name)
			continue
		}
		// not discharged
		if kf := matchKnown(known, prop, v.Obl); kf != nil {
			knownSeen = append(knownSeen, fmt.Sprintf("KNOWN-FINDING: property=%s %s %s", prop, v.Obl.Name, kf.What))
			continue
		}
		inBase := false
		if base != nil {
			if _, ok := base.Groups[v.Obl.Group()]; ok && base.Partial[v.Obl.Group()] == 0 {
				inBase = true
			}
			for _, n := range base.Names {
				if n == v.Obl.Name {
					inBase = true
				}
			}
		}
		// strict classes: a forbidden store (into the parsed tree, a package-level variable or table, or an escaping
		// runInfo pointer) is a violation wherever it appears, also in code that did not exist at baseline time
		strict := v.Obl.Class == "frame" && (strings.HasPrefix(v.Obl.Anchor, "ast.") || strings.HasPrefix(v.Obl.Anchor, "global") || strings.HasPrefix(v.Obl.Anchor, "escape."))
		if strict && base != nil {
			inBase = true
		}
		if base == nil || !inBase {
			undecided = append(undecided, fmt.Sprintf("%s %s [%s] %s", strings.ToUpper(v.Status), v.Obl.Name, v.Obl.Pos, v.Obl.Desc))
			continue
		}
		// a proved obligation now fails: violation
		path := filepath.Join(outDir, sanitize(v.Obl.Name)+".json")
		replayed := writeReplay(P, path, prop, v)
		line := fmt.Sprintf("VIOLATION property=%s replay=%s", prop, path)
		if !replayed {
			line += " no-failing-input-found"
		}
		violations = append(violations, line+"\n  obligation "+v.Obl.Name+" ["+v.Obl.Pos+"] "+v.Obl.Desc+" ("+v.Status+")")
	}
	// proved groups that disappeared
	if base != nil {
		present := map[string]bool{}
		for _, v := range vs {
			present[v.Obl.Group()] = true
		}
		for _, g := range sortedKeys(base.Groups) {
			if present[g] {
				continue
			}
			cls := groupClass(g)
			if cls == "nil" || cls == "idx" || cls == "assert" || cls == "div" || cls == "make" || cls == "panic" {
				continue // safety obligations vanish with the code they guard
			}
			if kfGroup(known, prop, g) {
				continue
			}
			path := filepath.Join(outDir, sanitize(g)+".missing.json")
			reason := "obligation group no longer generated"
			for _, u := range unsupported {
				if strings.HasPrefix(g, strings.SplitN(u, ": ", 2)[0]+"/") {
					reason = "function left the verifiable subset: " + u
				}
			}
			data, _ := json.MarshalIndent(map[string]interface{}{"property": prop, "obligation_group": g, "status": "missing", "reason": reason}, "", " ")
			os.WriteFile(path, data, 0o644)
			violations = append(violations, fmt.Sprintf("VIOLATION property=%s replay=%s no-failing-input-found\n  proved obligation group %s is gone: %s", prop, path, g, reason))
		}
	}
	for _, v := range vs {
		if v.Time > 8 && v.Status == "discharged" {
			fmt.Printf("SLOW: %.1fs %s (%s)\n", v.Time, v.Obl.Name, v.Solver)
		}
	}
	for _, l := range knownSeen {
		fmt.Println(l)
	}
	for _, l := range undecided {
		fmt.Println("UNDECIDED (not in baseline, not a violation):", l)
	}
	for _, u := range unsupported {
		fmt.Println("NOTE: outside the verifiable subset:", u)
	}
	for _, l := range violations {
		fmt.Println(l)
	}
	wall := time.Since(t0).Seconds()
	fmt.Printf("govc: property=%s tier=%s obligations=%d discharged=%d known=%d undecided=%d violations=%d solver_time=%.1fs wall=%.1fs\n",
		prop, tier, len(vs), discharged, len(knownSeen), len(undecided), len(violations), solverTime, wall)

	if writeBase {
		partial := map[string]int{}
		for _, v := range vs {
			if v.Status != "discharged" {
				partial[v.Obl.Group()]++
			}
		}
		b := Baseline{Property: prop, Groups: groupsNow, Names: names, Partial: partial}
		for _, v := range vs {
			if v.Status != "discharged" {
				b.Unproved = append(b.Unproved, v.Obl.Name)
			}
		}
		sort.Strings(b.Unproved)
		sort.Strings(b.Names)
		for k := range funcsUnder {
			b.Funcs = append(b.Funcs, k)
		}
		sort.Strings(b.Funcs)
		os.MkdirAll(filepath.Join(verifDir, "baseline"), 0o755)
		data, _ := json.MarshalIndent(&b, "", " ")
		os.WriteFile(filepath.Join(verifDir, "baseline", prop+".json"), data, 0o644)
		fmt.Println("govc: baseline written for", prop, "with", len(names), "obligations")
	}
	if len(vs) == 0 {
		fmt.Println("ENGINE-ERROR: zero obligations for", prop)
		return 2
	}
	if base != nil && !writeBase && discharged+len(knownSeen) < len(base.Names)*9/10 && len(violations) == 0 {
		fmt.Printf("ENGINE-ERROR: vacuity guard: only %d obligations discharged, baseline has %d\n", discharged, len(base.Names))
		return 2
	}
	// proof-level accounting: "obligations" are the claimed ones (proved at baseline time, i.e. listed in the
	// baseline); obligations that were never proved (reported above as UNDECIDED) and recorded known findings are
	// listed separately and are not part of the claim.
	claimed, claimedDischarged := 0, 0
	if base != nil {
		inNames := map[string]bool{}
		for _, n := range base.Names {
			inNames[n] = true
		}
		for _, v := range vs {
			_, g := base.Groups[v.Obl.Group()]
			if inNames[v.Obl.Name] || (g && base.Partial[v.Obl.Group()] == 0) {
				claimed++
				if v.Status == "discharged" {
					claimedDischarged++
				}
			}
		}
	} else {
		claimed, claimedDischarged = discharged, discharged
	}
	writeEvidence(P, prop, tier, seed, vs, encs, claimedDischarged, byClass, byBackend, solverTime, maxTime, knownSeen, undecided, violations, unsupported, funcsUnder, wall, claimed)
	if len(violations) > 0 {
		return 1
	}
	return 0
}

func groupClass(g string) string {
	parts := strings.Split(g, "/")
	if len(parts) >= 2 {
		return parts[len(parts)-2]
	}
	return ""
}

func contractMentions(c *Contract, prop string) bool {
	if hasProp(c.Props, prop) {
		return true
	}
	for _, cls := range [][]Clause{c.Requires, c.Ensures, c.EnsuresOnPanic} {
		for _, cl := range cls {
			if hasProp(cl.Props, prop) {
				return true
			}
		}
	}
	return false
}

func matchKnown(known []KnownFinding, prop string, o *Obl) *KnownFinding {
	for i := range known {
		k := &known[i]
		if k.Status != "known" {
			continue
		}
		if k.Property != prop && k.Property != "*" {
			continue
		}
		if k.Obligation == o.Name || k.Obligation == o.Group() {
			return k
		}
	}
	return nil
}

func kfGroup(known []KnownFinding, prop, g string) bool {
	for _, k := range known {
		if k.Status == "known" && (k.Property == prop || k.Property == "*") && (k.Obligation == g || strings.HasPrefix(k.Obligation, g+"#")) {
			return true
		}
	}
	return false
}

// crossCheck (thorough tier): every discharged, non-trivial obligation is re-run on the other solvers;
// a "sat" answer from another solver is a disagreement.
func crossCheck(jobs []job, vs []*Verdict) string {
	type item struct {
		i int
	}
	var mu sync.Mutex
	msg := ""
	var wg sync.WaitGroup
	sem := make(chan struct{}, 8)
	for i, v := range vs {
		if v.Status != "discharged" || v.Trivial {
			continue
		}
		wg.Add(1)
		go func(i int, v *Verdict) {
			defer wg.Done()
			sem <- struct{}{}
			defer func() { <-sem }()
			wk := <-workerPool
			defer func() { workerPool <- wk }()
			for _, name := range []string{"z3-4.8.12", "cvc5-1.0.3"} {
				if v.Solver == name {
					continue
				}
				st := wk.runOne(name, v.SMT, 20)
				if st == "sat" {
					mu.Lock()
					msg = fmt.Sprintf("%s: %s says unsat, %s says sat", v.Obl.Name, v.Solver, name)
					mu.Unlock()
				}
			}
		}(i, v)
	}
	wg.Wait()
	return msg
}

func fileHash(path string) string {
	data, err := os.ReadFile(path)
	if err != nil {
		return "missing"
	}
	h := sha256.Sum256(data)
	return fmt.Sprintf("%x", h[:8])
}

func writeEvidence(P *Prog, prop, tier string, seed int, vs []*Verdict, encs []*Enc, discharged int, byClass, byBackend map[string]int,
	solverTime, maxTime float64, knownSeen, undecided, violations, unsupported []string, funcsUnder map[string]bool, wall float64, claimed int) {
	var samples []map[string]string
	for i, v := range vs {
		if i%max(1, len(vs)/8) == 0 && len(samples) < 10 {
			samples = append(samples, map[string]string{"obligation": v.Obl.Name, "clause": v.Obl.Desc, "at": v.Obl.Pos, "verdict": v.Status, "solver": v.Solver})
		}
	}
	var funcs []string
	for k := range funcsUnder {
		funcs = append(funcs, k)
	}
	sort.Strings(funcs)
	assume := map[string]bool{}
	for _, e := range encs {
		used := false
		for _, o := range e.obls {
			if hasProp(o.Props, prop) {
				used = true
				break
			}
		}
		if !used {
			continue
		}
		for _, w := range e.warnings {
			if strings.HasPrefix(w, "assumption: ") {
				assume[strings.TrimPrefix(w, "assumption: ")] = true
			}
		}
	}
	for _, p := range P.Spec.Pragmas {
		assume["contract pragma: "+p] = true
	}
	var assumptions []string
	for a := range assume {
		assumptions = append(assumptions, a)
	}
	sort.Strings(assumptions)
	assumptions = append(propAssumptions(prop), assumptions...)
	trusted := []string{"go/ssa (golang.org/x/tools v0.29.0) construction of the IR from /repo's working tree", "govc SSA-to-SMT translation (this engine)", "z3 4.8.12, z3 5.1.0, cvc5 1.0.3", "Go toolchain go1.23.5"}
	for _, f := range P.SpecFiles {
		if strings.HasSuffix(f, ".spec") {
			trusted = append(trusted, "trusted contracts "+filepath.Base(f)+" sha256:"+fileHash(f))
		}
	}
	for k, r := range skipFuncs {
		trusted = append(trusted, "not verified: "+k+" ("+r+")")
	}
	sort.Strings(trusted[4:])
	level := "proof"
	ev := map[string]interface{}{
		"property_id": prop,
		"tier":        tier,
		"seed":        seed,
		"level":       level,
		"wall_s":      wall,
		"violations":  len(violations),
		"assumptions": assumptions,
		"coverage": map[string]interface{}{
			"obligations":              claimed,
			"discharged":               discharged,
			"obligations_generated":    len(vs),
			"obligations_not_claimed":  len(vs) - claimed,
			"checker_cmd":              "z3-new -in (5.1.0, persistent) | /usr/bin/z3 -in -T:<t> (4.8.12) | cvc5 --lang=smt2 --tlimit=<t> (1.0.3); first definite answer per obligation",
			"trusted_base":             trusted,
			"functions_under_contract": funcs,
			"by_class":                 byClass,
			"by_backend":               byBackend,
			"solver_time_s":            solverTime,
			"solver_time_max_s":        maxTime,
			"known_findings_seen":      knownSeen,
			"undecided_new":            undecided,
			"outside_subset":           unsupported,
			"bounded":                  boundedNotes(prop),
			"samples":                  samples,
			"evaluations":              len(vs),
			"distinct_nontrivial":      countNontrivial(vs),
			"rule":                     "one case = one proof obligation generated from the SSA of /repo's working tree (or from its constant tables / type declarations); non-trivial = needed a solver call (not syntactically true)",
		},
	}
	evDir := filepath.Join(verifDir, "evidence")
	if d := os.Getenv("GOVC_EVIDENCE"); d != "" {
		evDir = d // selftest runs on scratch copies must not overwrite the real evidence
	}
	os.MkdirAll(evDir, 0o755)
	data, _ := json.MarshalIndent(ev, "", " ")
	os.WriteFile(filepath.Join(evDir, prop+".json"), data, 0o644)
}

func countNontrivial(vs []*Verdict) int {
	seen := map[string]bool{}
	for _, v := range vs {
		if !v.Trivial {
			seen[v.Obl.Name] = true
		}
	}
	return len(seen)
}

func max(a, b int) int {
	if a > b {
		return a
	}
	return b
}

// writeReplay writes the replay file of a violated obligation and tries to reproduce it on the real code.
func writeReplay(P *Prog, path, prop string, v *Verdict) bool {
	rep := map[string]interface{}{
		"property":      prop,
		"obligation":    v.Obl.Name,
		"class":         v.Obl.Class,
		"clause":        v.Obl.Desc,
		"at":            v.Obl.Pos,
		"function":      v.Obl.Func,
		"verdict":       v.Status,
		"solver":        v.Solver,
		"solver_output": truncate(v.Raw, 20000),
	}
	smtPath := strings.TrimSuffix(path, ".json") + ".smt2"
	os.WriteFile(smtPath, []byte(v.SMT), 0o644)
	rep["smt_file"] = smtPath
	// refuted obligations with a witness are replayed from it; for the operator evaluators (where the solvers answer
	// `unknown` rather than with a model) a bounded search harness looks for a concrete failing input on the real code
	ok := tryReplay(P, v, rep)
	rep["replayed_on_real_code"] = ok
	data, _ := json.MarshalIndent(rep, "", " ")
	os.WriteFile(path, data, 0o644)
	return ok
}

func truncate(s string, n int) string {
	if len(s) > n {
		return s[:n] + "...[truncated]"
	}
	return s
}

func cmdReplay(args []string) {
	if len(args) < 1 {
		fmt.Fprintln(os.Stderr, "usage: govc replay <file>")
		os.Exit(2)
	}
	data, err := os.ReadFile(args[0])
	if err != nil {
		fmt.Fprintln(os.Stderr, err)
		os.Exit(2)
	}
	fmt.Println(string(data))
	var rep map[string]interface{}
	json.Unmarshal(data, &rep)
	if h, ok := rep["replay_harness"].(string); ok && h != "" {
		out, repro := replayFromFile(&Prog{RepoDir: repoDir}, rep)
		fmt.Println(out)
		if repro {
			os.Exit(1)
		}
	}
}

func vacuityGuard(encs []*Enc, prop, tier string) string {
	var jobs []job
	nb := 0
	for _, e := range encs {
		if e.unsupported != "" {
			continue
		}
		used := false
		for _, o := range e.obls {
			if hasProp(o.Props, prop) {
				used = true
				break
			}
		}
		if !used {
			continue
		}
		// background only: no body lines (quick tier: a rotating sample of the encodings; thorough: all)
		nb++
		if tier == "thorough" || nb%8 == 0 {
			jobs = append(jobs, job{e, &Obl{Name: e.key + "/vacuity/background", Class: "vacuity", Prefix: 0, Reach: TTrue, Goal: TFalse, Func: e.key, Blk: -1, Budget: 1}})
		}
		if tier == "thorough" {
			for i, c := range e.covers {
				jobs = append(jobs, job{e, &Obl{Name: fmt.Sprintf("%s/vacuity/return#%d", e.key, i), Class: "vacuity-return", Prefix: c.prefix, Reach: c.reach, Goal: TFalse, Func: e.key, Blk: c.blk, Budget: 3, Pos: c.pos}})
			}
		}
	}
	if d := os.Getenv("GOVC_DUMP_VACUITY"); d != "" {
		os.MkdirAll(d, 0o755)
		for _, j := range jobs {
			os.WriteFile(d+"/"+sanitize(j.o.Name)+".smt2", []byte(j.e.smtFor(j.o)), 0o644)
		}
	}
	vs := solveAll(jobs, 3, 16)
	reachable := map[string]bool{}
	hasRet := map[string]bool{}
	for _, v := range vs {
		if v.Obl.Class == "vacuity" {
			if v.Status == "discharged" {
				// one solver refuted the background theory. A contradictory theory is refuted by the others too (the theories are
				// small); a lone "unsat" that the other solvers do not confirm within a longer budget is a solver anomaly (seen once,
				// on a cold machine, never reproduced): that solver is then not asked again in this run.
				names, confirm := confirmUnsat(v)
				if confirm >= 2 {
					return "contradictory background theory in " + v.Obl.Func + " (refuted by " + names + ")"
				}
				fmt.Printf("WARNING: %s answered unsat on the background theory of %s; the other solvers do not confirm it - treated as a solver anomaly, %s is not used in this run\n", v.Solver, v.Obl.Func, v.Solver)
				if d := os.Getenv("GOVC_OUT"); d != "" {
					os.WriteFile(d+"/anomaly-"+sanitize(v.Obl.Name)+".smt2", []byte(v.SMT), 0o644)
				} else {
					os.MkdirAll("/verif/out", 0o755)
					os.WriteFile("/verif/out/anomaly-"+sanitize(v.Obl.Name)+".smt2", []byte(v.SMT), 0o644)
				}
				base := strings.TrimSuffix(strings.TrimSuffix(v.Solver, "+goal-split"), "+case-split")
				distrusted = append(distrusted, base)
			}
			continue
		}
		hasRet[v.Obl.Func] = true
		if v.Status != "discharged" {
			reachable[v.Obl.Func] = true
		} else {
			// one unreachable return among several: dead code, or a path excluded by a stated assumption - or a local
			// vacuity; printed so that it can be looked at (recoverFunc's recovered path was found this way)
			fmt.Println("NOTE: return provably unreachable under the contracts:", v.Obl.Name, v.Obl.Pos)
		}
	}
	noRet := map[string]bool{}
	for _, e := range encs {
		if e.callsNoReturn {
			noRet[e.key] = true
		}
	}
	for f := range hasRet {
		if !reachable[f] && !noRet[f] {
			return "every return of " + f + " is provably unreachable under its contract (contradictory requires or callee contracts?)"
		}
	}
	return ""
}

// confirmUnsat re-asks every solver (10 s each) about a background theory that one solver refuted; it returns the names of the
// solvers that answer unsat and their number.
func confirmUnsat(v *Verdict) (string, int) {
	wk := <-workerPool
	defer func() { workerPool <- wk }()
	var names []string
	for _, sp := range solvers {
		if wk.runOne(sp.name, v.SMT, 10) == "unsat" {
			names = append(names, sp.name)
		}
	}
	return strings.Join(names, ", "), len(names)
}
