package main

func cmdCheck(args []string)    {}
func cmdBaseline(args []string) {}
func cmdReplay(args []string)   {}
