package main

// Replay: see replay_harness.go (property-level harnesses run against the real code through go test -overlay).

func tryReplay(P *Prog, v *Verdict, rep map[string]interface{}) bool { return false }

func runReplayTest(pkg, test string) (string, bool) { return "", true }
