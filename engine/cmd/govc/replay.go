package main

import (
	"fmt"
	"os"
	"os/exec"
	"path/filepath"
	"strings"
	"time"
)

// Replay: a refuted obligation whose failing instance can be turned into an input of the real code is replayed
// against /repo's working tree: a harness from /verif/replay/<kind>/ is copied into a scratch module (outside /repo
// and /verif, removed afterwards) that imports the real packages through a `replace` directive.
//
// Only obligations that carry a Witness (ground table facts, operator obligations with first-order operands) can
// be replayed; for all others the VIOLATION line ends with no-failing-input-found and the replay file carries the
// solver output.

var opSpelling = map[string]string{
	"EQEQ": "==", "NEQ": "!=", "GE": ">=", "LE": "<=", "OROR": "||", "ANDAND": "&&", "NILCOALESCE": "??",
	"SHIFTLEFT": "<<", "SHIFTRIGHT": ">>", "IN": " in ",
}

func spell(tok string) string {
	if s, ok := opSpelling[tok]; ok {
		return s
	}
	return strings.Trim(tok, "'")
}

// lrSources builds, for a table-lemma witness, the operator expression and its explicitly parenthesised form.
func lrSources(w map[string]string) (src, paren string, ok bool) {
	op, look := spell(w["op"]), spell(w["look"])
	var cont string
	switch w["look"] {
	case "'('":
		cont = "(z)"
	case "'['":
		cont = "[z]"
	case "'.'":
		cont = ".z"
	case "'?'":
		cont = " ? y : z"
	default:
		cont = " " + look + " z"
	}
	var head, last string
	switch w["arity"] {
	case "2":
		head, last = op+" ", "a"
	case "3":
		head, last = "a "+op+" ", "b"
	case "5":
		head, last = "a ? b : ", "c"
	default:
		return "", "", false
	}
	src = head + last + cont
	if w["expect"] == "reduce" {
		paren = "(" + head + last + ")" + cont
	} else {
		paren = head + "(" + last + cont + ")"
	}
	return src, paren, true
}

// runHarness builds and runs /verif/replay/<kind>/main.go against P.RepoDir. Exit status 1 of the harness means
// "violation reproduced on the real code".
func runHarness(P *Prog, kind string, args []string) (out string, reproduced bool, err error) {
	src := filepath.Join(verifDir, "replay", kind, "main.go")
	data, err := os.ReadFile(src)
	if err != nil {
		return "", false, err
	}
	dir, err := os.MkdirTemp("", "govc-replay-")
	if err != nil {
		return "", false, err
	}
	defer os.RemoveAll(dir)
	os.WriteFile(filepath.Join(dir, "main.go"), data, 0o644)
	gomod := fmt.Sprintf("module replay\ngo 1.21\nrequire github.com/mattn/anko v0.0.0\nreplace github.com/mattn/anko => %s\n", P.RepoDir)
	os.WriteFile(filepath.Join(dir, "go.mod"), []byte(gomod), 0o644)
	if sum, err := os.ReadFile(filepath.Join(P.RepoDir, "go.sum")); err == nil {
		os.WriteFile(filepath.Join(dir, "go.sum"), sum, 0o644)
	}
	env := append(os.Environ(), "GOFLAGS=-mod=mod", "GOPROXY=off", "GOSUMDB=off", "GOTOOLCHAIN=local")
	build := exec.Command("go", "build", "-o", filepath.Join(dir, "harness"), ".")
	build.Dir = dir
	build.Env = env
	if bo, err := build.CombinedOutput(); err != nil {
		return string(bo), false, fmt.Errorf("harness build failed: %v", err)
	}
	cmd := exec.Command(filepath.Join(dir, "harness"), args...)
	cmd.Dir = dir
	cmd.Env = env
	done := make(chan struct{})
	var o []byte
	var rerr error
	go func() { o, rerr = cmd.CombinedOutput(); close(done) }()
	select {
	case <-done:
	case <-time.After(60 * time.Second):
		if cmd.Process != nil {
			cmd.Process.Kill()
		}
		<-done
		return string(o), false, fmt.Errorf("harness timed out")
	}
	if ee, ok := rerr.(*exec.ExitError); ok {
		return string(o), ee.ExitCode() == 1, nil
	}
	return string(o), false, rerr
}

// operatorFuncs: obligations of these functions are about the operator tables of C05/C06/C20.
var operatorFuncs = map[string]bool{
	"vm.(*runInfoStruct).invokeAddOperator": true, "vm.(*runInfoStruct).invokeMultiplyOperator": true,
	"vm.(*runInfoStruct).invokeComparisonOperator": true, "vm.(*runInfoStruct).invokeUnaryExpr": true,
	"vm.equal": true, "vm.toInt64": true, "vm.tryToInt64": true, "vm.toFloat64": true, "vm.tryToFloat64": true,
	"vm.int64Value": true, "vm.init#1": true, "vm.precedenceOfKinds": true, "vm.isNum": true, "vm.isNil": true,
}

func tryReplay(P *Prog, v *Verdict, rep map[string]interface{}) bool {
	w := v.Obl.Witness
	if w == nil {
		kind := ""
		switch {
		case operatorFuncs[v.Obl.Func]:
			kind = "operators"
		case v.Obl.Func == "core.Import$2":
			kind = "range"
		case strings.HasPrefix(v.Obl.Func, "astutil."):
			kind = "walker"
		}
		if kind != "" && P != nil && P.RepoDir != "" {
			out, repro, err := runHarness(P, kind, nil)
			rep["replay_harness"] = "/verif/replay/" + kind + "/main.go (scratch module with replace github.com/mattn/anko => " + P.RepoDir + ")"
			rep["replay_kind"] = "bounded search for a failing input on the real code (the solver gave no model): the harness compares the real packages with the reference semantics of the property statement over a grid / corpus; see the harness source"
			rep["replay_args"] = []string{}
			rep["replay_output"] = truncate(out, 8000)
			if err != nil {
				rep["replay_error"] = err.Error()
			}
			return repro
		}
		return false
	}
	switch w["kind"] {
	case "lr":
		src, paren, ok := lrSources(w)
		if !ok {
			return false
		}
		out, repro, err := runHarness(P, "lrtable", []string{src, paren})
		rep["replay_harness"] = "/verif/replay/lrtable/main.go (scratch module with replace github.com/mattn/anko => " + P.RepoDir + ")"
		rep["replay_args"] = []string{src, paren}
		rep["replay_output"] = truncate(out, 8000)
		if err != nil {
			rep["replay_error"] = err.Error()
		}
		return repro
	}
	return false
}

// cmdReplayFile re-runs the harness recorded in a replay file.
func replayFromFile(P *Prog, rep map[string]interface{}) (string, bool) {
	h, _ := rep["replay_harness"].(string)
	if h == "" {
		return "", false
	}
	var args []string
	if a, ok := rep["replay_args"].([]interface{}); ok {
		for _, x := range a {
			args = append(args, fmt.Sprint(x))
		}
	}
	kind := filepath.Base(filepath.Dir(strings.Fields(h)[0]))
	out, repro, err := runHarness(P, kind, args)
	if err != nil {
		out += "\n" + err.Error()
	}
	return out, repro
}
