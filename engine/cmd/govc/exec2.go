package main

import (
	"fmt"
	"go/token"
	"go/types"
	"sort"
	"strings"

	"golang.org/x/tools/go/ssa"
)

// knownComps is filled by a first (discovery) pass so that "havoc everything" can enumerate all components.
type compSet map[string]string

func (e *Enc) merge(b *ssa.BasicBlock, ins []*State) *State {
	if len(ins) == 1 {
		s := ins[0].clone()
		s.reach = e.def(fmt.Sprintf("reach_b%d", b.Index), s.reach)
		return s
	}
	out := &State{cells: map[*ssa.Alloc]Term{}, heaps: map[string]Term{}}
	var rs []Term
	for _, s := range ins {
		rs = append(rs, s.reach)
	}
	out.reach = e.def(fmt.Sprintf("reach_b%d", b.Index), Or(rs...))
	for _, r := range rs {
		out.splits = append(out.splits, e.def("split", r))
	}
	// hwm
	out.hwm = e.mergeTerm("hwm", ins, func(s *State) Term { return s.hwm })
	cellKeys := map[*ssa.Alloc]bool{}
	heapKeys := map[string]bool{}
	for _, s := range ins {
		for k := range s.cells {
			cellKeys[k] = true
		}
		for k := range s.heaps {
			heapKeys[k] = true
		}
	}
	var cks []*ssa.Alloc
	for k := range cellKeys {
		cks = append(cks, k)
	}
	sort.Slice(cks, func(i, j int) bool { return cks[i].Name() < cks[j].Name() || (cks[i].Name() == cks[j].Name() && cks[i].Pos() < cks[j].Pos()) })
	for _, k := range cks {
		k := k
		t := k.Type().(*types.Pointer).Elem()
		out.cells[k] = e.mergeTerm("c_"+k.Comment, ins, func(s *State) Term {
			if v, ok := s.cells[k]; ok {
				return v
			}
			return e.zero(t)
		})
	}
	hks := make([]string, 0, len(heapKeys))
	for k := range heapKeys {
		hks = append(hks, k)
	}
	sort.Strings(hks)
	for _, k := range hks {
		k := k
		out.heaps[k] = e.mergeTerm("m", ins, func(s *State) Term { return e.comp(s, k, e.compSort[k]) })
	}
	return out
}

func (e *Enc) mergeTerm(prefix string, ins []*State, get func(*State) Term) Term {
	first := get(ins[0])
	same := true
	for _, s := range ins[1:] {
		if get(s).S != first.S {
			same = false
			break
		}
	}
	if same {
		return first
	}
	t := get(ins[len(ins)-1])
	for i := len(ins) - 2; i >= 0; i-- {
		t = Ite(ins[i].reach, get(ins[i]), t)
	}
	return e.def(prefix, t)
}

type modSet struct {
	all   bool
	cells map[*ssa.Alloc]bool
	heaps map[string]bool
}

func newModSet() *modSet { return &modSet{cells: map[*ssa.Alloc]bool{}, heaps: map[string]bool{}} }

func (e *Enc) structHeaps(t types.Type, ms *modSet) {
	s, ok := t.Underlying().(*types.Struct)
	if !ok {
		return
	}
	tn := typeName(t)
	for i := 0; i < s.NumFields(); i++ {
		ft := s.Field(i).Type()
		if isStructVal(ft) {
			e.structHeaps(ft, ms)
		} else if at, ok := ft.Underlying().(*types.Array); ok {
			ms.heaps["E:"+sortOf(at.Elem())] = true
		} else {
			ms.heaps["H:"+tn+"."+s.Field(i).Name()] = true
		}
	}
}

// addrMods records what a store through address value v may modify.
func (e *Enc) addrMods(v ssa.Value, ms *modSet) {
	switch v := v.(type) {
	case *ssa.Alloc:
		if e.private[v] {
			ms.cells[v] = true
			return
		}
		t := v.Type().(*types.Pointer).Elem()
		if isStructVal(t) {
			e.structHeaps(t, ms)
		} else if at, ok := t.Underlying().(*types.Array); ok {
			ms.heaps["E:"+sortOf(at.Elem())] = true
		} else {
			ms.heaps["M:"+typeName(t)] = true
		}
	case *ssa.FieldAddr:
		st := v.X.Type().Underlying().(*types.Pointer).Elem()
		f := st.Underlying().(*types.Struct).Field(v.Field)
		if isStructVal(f.Type()) {
			e.structHeaps(f.Type(), ms)
		} else if at, ok := f.Type().Underlying().(*types.Array); ok {
			ms.heaps["E:"+sortOf(at.Elem())] = true
		} else {
			ms.heaps["H:"+typeName(st)+"."+f.Name()] = true
		}
	case *ssa.IndexAddr:
		et := v.Type().(*types.Pointer).Elem()
		if isStructVal(et) {
			e.structHeaps(et, ms)
		} else {
			ms.heaps["E:"+sortOf(et)] = true
		}
	case *ssa.Global:
		t := v.Type().(*types.Pointer).Elem()
		if isStructVal(t) {
			e.structHeaps(t, ms)
		} else if at, ok := t.Underlying().(*types.Array); ok {
			ms.heaps["E:"+sortOf(at.Elem())] = true
		} else {
			ms.heaps["G:"+pkgShort(v.Pkg.Pkg)+"."+v.Name()] = true
		}
	default:
		t := v.Type().Underlying().(*types.Pointer).Elem()
		if isStructVal(t) {
			e.structHeaps(t, ms)
		} else {
			ms.heaps["M:"+typeName(t)] = true
		}
	}
}

func (e *Enc) loopMods(li *loopInfo) *modSet {
	ms := newModSet()
	for b := range li.blocks {
		for _, ins := range b.Instrs {
			switch ins := ins.(type) {
			case *ssa.Store:
				e.addrMods(ins.Addr, ms)
			case *ssa.Alloc:
				if !e.private[ins] {
					e.addrMods(ins, ms)
				}
			case *ssa.MapUpdate:
				mt := ins.Map.Type().Underlying().(*types.Map)
				ms.heaps[mapVHeap(mt)] = true
				ms.heaps[mapPHeap(mt)] = true
			case *ssa.MakeMap:
				mt := ins.Type().Underlying().(*types.Map)
				ms.heaps[mapVHeap(mt)] = true
				ms.heaps[mapPHeap(mt)] = true
			case *ssa.Next:
				if !ins.IsString {
					ms.heaps[visitedComp(ins.Iter.(*ssa.Range))] = true
				}
			case *ssa.UnOp:
				if ins.Op == token.MUL {
					// loads of structs allocate value objects
					t := ins.Type()
					if isStructVal(t) {
						e.structHeaps(t, ms)
					}
				}
			case ssa.CallInstruction:
				e.callMods(ins.Common(), ms)
				if _, isDefer := ins.(*ssa.Defer); isDefer {
					e.unsupported = "defer inside a loop"
				}
			case *ssa.RunDefers:
			}
		}
	}
	return ms
}

// rangeIndexPattern: every store to the cell is the constant -1 or (its own value + 1).
func rangeIndexPattern(a *ssa.Alloc) bool {
	for _, r := range *a.Referrers() {
		st, ok := r.(*ssa.Store)
		if !ok || st.Addr != a {
			continue
		}
		switch v := st.Val.(type) {
		case *ssa.Const:
			if v.Value == nil || v.Int64() != -1 {
				return false
			}
		case *ssa.BinOp:
			if v.Op != token.ADD {
				return false
			}
			ld, ok := v.X.(*ssa.UnOp)
			one, ok2 := v.Y.(*ssa.Const)
			if !ok || !ok2 || ld.X != a || one.Value == nil || one.Int64() != 1 {
				return false
			}
		default:
			return false
		}
	}
	return true
}

func mapVHeap(mt *types.Map) string { return "MV:" + sortOf(mt.Key()) + ":" + sortOf(mt.Elem()) }
func mapPHeap(mt *types.Map) string { return "MP:" + sortOf(mt.Key()) }

// callMods: components a call may modify (for loop havoc).
func (e *Enc) callMods(c *ssa.CallCommon, ms *modSet) {
	if b, ok := c.Value.(*ssa.Builtin); ok {
		switch b.Name() {
		case "append":
			et := c.Args[0].Type().Underlying().(*types.Slice).Elem()
			if isStructVal(et) {
				e.structHeaps(et, ms)
			} else {
				ms.heaps["E:"+sortOf(et)] = true
			}
		case "copy":
			if sl, ok := c.Args[0].Type().Underlying().(*types.Slice); ok {
				ms.heaps["E:"+sortOf(sl.Elem())] = true
			}
		case "delete":
			mt := c.Args[0].Type().Underlying().(*types.Map)
			ms.heaps[mapPHeap(mt)] = true
		}
		return
	}
	ct, key := e.calleeContract(c)
	if lockOp(key) != "" {
		ms.heaps["X:held"] = true
		ms.heaps["X:section"] = true
		if e.concMode {
			ms.all = true
		}
		return
	}
	if ct == nil {
		if key == "" || e.isInternalKey(key) {
			ms.all = true
		}
		return
	}
	if ct.ModifiesAll {
		ms.all = true
		return
	}
	if e.tracedHere(ct, ct.Key) {
		for _, n := range traceComps {
			ms.heaps[n] = true
		}
	}
	for _, p := range ct.Modifies {
		names, err := e.modPathHeaps(ct, c, p)
		if err != nil {
			e.warn("modifies %q of %s: %v", p, ct.Key, err)
			ms.all = true
			return
		}
		for _, n := range names {
			ms.heaps[n] = true
		}
	}
	// allocation inside callees may touch struct heaps only at fresh objects: not tracked (callee ensures are in terms of its own modifies)
}

func (e *Enc) isInternalKey(key string) bool {
	_, ok := e.P.Funcs[key]
	return ok
}

// ---------------------------------------------------------------------------
// Main loop

func (e *Enc) run(known compSet) {
	defer func() {
		if r := recover(); r != nil {
			if s, ok := r.(unsupportedErr); ok {
				e.unsupported = string(s)
				return
			}
			panic(r)
		}
	}()
	for k, v := range known {
		e.compSort[k] = v
	}
	e.analyseAllocs()
	order, ok := e.prepareCFG()
	if !ok {
		return
	}
	e.decls.add("const:hwm0", "(declare-const hwm0 Int)")
	e.decls.add("ax:hwm0", "(assert (> hwm0 1))")
	st0 := &State{reach: TTrue, cells: map[*ssa.Alloc]Term{}, heaps: map[string]Term{}, hwm: Term{"hwm0", SInt}}
	// parameters
	names := e.paramNames()
	for i, p := range e.fn.Params {
		c := e.fresh("p_"+p.Name(), sortOf(p.Type()))
		e.assert(e.typeAssume(c, p.Type(), st0.hwm))
		e.vals[p] = tv(c)
		e.paramVals[names[i]] = tv(c)
		e.paramTypes[names[i]] = p.Type()
	}
	for _, fv := range e.fn.FreeVars {
		c := e.fresh("fv_"+fv.Name(), SInt)
		e.assert(And(Not(Eq(c, I(0))), Lt(I(0), e.root(c)), Lt(e.root(c), st0.hwm)))
		e.vals[fv] = tv(c)
	}
	if e.hasGhost("panicking") {
		// normal (non-exceptional) execution: no panic is in flight - except in functions that call recover() themselves
		// (deferred recover helpers run in both situations; their contract must be proved for both)
		e.compSort["X:panicking"] = SBool
		if !callsRecover(e.fn) {
			e.assert(Not(e.comp(st0, "X:panicking", SBool)))
		}
	}
	e.pre = st0
	e.initTrace(st0)
	e.assumeGlobalInvs(st0)
	if e.c != nil {
		sc := e.specCtx(st0, st0)
		for _, cl := range e.c.Captures {
			t, err := sc.evalBool(cl.Expr)
			if err != nil {
				e.unsupported = fmt.Sprintf("captures %q: %v", cl.Text, err)
				return
			}
			e.assert(t)
		}
		for _, cl := range e.c.Requires {
			t, err := sc.evalBool(cl.Expr)
			if err != nil {
				e.unsupported = fmt.Sprintf("requires %q: %v", cl.Text, err)
				return
			}
			e.assert(t)
		}
	}
	e.pre = st0.clone()
	e.useLemmas(st0)
	incoming := map[*ssa.BasicBlock][]*State{}
	idx := map[*ssa.BasicBlock]int{}
	for i, b := range order {
		idx[b] = i
	}
	// ancestors (for slicing queries to the cone of influence of an obligation's block)
	e.anc = map[int]map[int]bool{}
	for _, b := range order {
		a := map[int]bool{b.Index: true}
		for _, p := range b.Preds {
			if pi, ok := idx[p]; ok && pi < idx[b] {
				for k := range e.anc[p.Index] {
					a[k] = true
				}
			}
		}
		e.anc[b.Index] = a
	}
	for _, b := range order {
		var st *State
		e.curBlk = b.Index
		if b == e.fn.Blocks[0] {
			st = st0
		} else {
			ins := incoming[b]
			if len(ins) == 0 {
				continue
			}
			st = e.merge(b, ins)
		}
		if li := e.loops[b]; li != nil {
			e.enterLoop(li, st)
			if e.unsupported != "" {
				return
			}
		}
		e.curSplits = st.splits
		for _, ins := range b.Instrs {
			e.curInstr = ins
			e.instr(st, ins)
			if e.unsupported != "" {
				return
			}
		}
		// terminator edges
		last := b.Instrs[len(b.Instrs)-1]
		var outs []*State
		switch t := last.(type) {
		case *ssa.If:
			c := e.val(st, t.Cond).T
			s1 := st.clone()
			s1.reach = And(st.reach, c)
			s2 := st.clone()
			s2.reach = And(st.reach, Not(c))
			outs = []*State{s1, s2}
		case *ssa.Jump:
			outs = []*State{st}
		}
		for i, s := range b.Succs {
			if i >= len(outs) {
				break
			}
			es := outs[i]
			e.edgeOut[[2]int{b.Index, s.Index}] = es
			if li := e.loops[s]; li != nil && idx[s] <= idx[b] {
				e.backEdge(li, es)
				continue
			}
			incoming[s] = append(incoming[s], es)
		}
	}
	e.curBlk = -1
	e.finishPanics()
}

type unsupportedErr string

func (e *Enc) paramNames() []string {
	names := make([]string, len(e.fn.Params))
	for i, p := range e.fn.Params {
		names[i] = p.Name()
	}
	if e.c != nil && len(e.c.ParamNames) == len(names) {
		copy(names, e.c.ParamNames)
	}
	return names
}

func (e *Enc) enterLoop(li *loopInfo, st *State) {
	pr := e.autoProps()
	var invs, decs []Clause
	if li.spec != nil {
		invs, decs = li.spec.Invariants, li.spec.Decreases
	}
	// inv_init
	e.useLemmas(st)
	sc := e.specCtx(st, e.pre)
	sc.preferLocals = true
	for i, cl := range invs {
		t, err := sc.evalBool(cl.Expr)
		if err != nil {
			e.unsupported = fmt.Sprintf("loop %d invariant %q: %v", li.ordinal, cl.Text, err)
			return
		}
		e.oblige("inv_init", e.clauseAnchor(fmt.Sprintf("loop%d", li.ordinal), cl, i), clauseProps(cl, pr), st.reach, t, cl.Text, blockPos(li.header))
	}
	// havoc
	ms := e.loopMods(li)
	if e.unsupported != "" {
		return
	}
	e.havoc(st, ms, "l")
	e.assumeGlobalInvs(st)
	// implicit loop invariant: the function's own frame (checked at every back edge)
	for _, g := range e.frameGoals(st, e.ownStoreTargets()) {
		e.assume(st.reach, g.goal)
	}
	e.useLemmas(st)
	sc = e.specCtx(st, e.pre)
	sc.preferLocals = true
	for _, cl := range invs {
		t, err := sc.evalBool(cl.Expr)
		if err != nil {
			e.unsupported = fmt.Sprintf("loop %d invariant %q: %v", li.ordinal, cl.Text, err)
			return
		}
		e.assume(st.reach, t)
	}
	li.headSt = st.clone()
	li.progress = nil
	if li.spec != nil {
		for _, cl := range li.spec.Progress {
			t, _, err := sc.eval(cl.Expr)
			if err != nil {
				e.unsupported = fmt.Sprintf("loop %d progress %q: %v", li.ordinal, cl.Text, err)
				return
			}
			li.progress = append(li.progress, e.def("progress", t.T))
		}
	}
	li.variant = nil
	for _, cl := range decs {
		t, _, err := sc.eval(cl.Expr)
		if err != nil {
			e.unsupported = fmt.Sprintf("loop %d decreases %q: %v", li.ordinal, cl.Text, err)
			return
		}
		li.variant = append(li.variant, e.def("variant", t.T))
	}
}

func (e *Enc) backEdge(li *loopInfo, st *State) {
	pr := e.autoProps()
	if e.c != nil {
		for _, g := range e.frameGoals(st, e.ownStoreTargets()) {
			e.oblige("frame", fmt.Sprintf("loop%d.modifies.%s", li.ordinal, g.name), e.framePropsFor(g.name), st.reach, g.goal, g.desc, blockPos(li.header))
		}
	}
	if li.spec == nil {
		return
	}
	e.useLemmas(st)
	sc := e.specCtx(st, e.pre)
	sc.preferLocals = true
	for i, cl := range li.spec.Invariants {
		t, err := sc.evalBool(cl.Expr)
		if err != nil {
			e.unsupported = fmt.Sprintf("loop %d invariant %q: %v", li.ordinal, cl.Text, err)
			return
		}
		e.oblige("inv_keep", e.clauseAnchor(fmt.Sprintf("loop%d", li.ordinal), cl, i), clauseProps(cl, pr), st.reach, t, cl.Text, blockPos(li.header))
	}
	for i, cl := range li.spec.Progress {
		t, _, err := sc.eval(cl.Expr)
		if err != nil {
			e.unsupported = fmt.Sprintf("loop %d progress %q: %v", li.ordinal, cl.Text, err)
			return
		}
		e.oblige("progress", e.clauseAnchor(fmt.Sprintf("loop%d", li.ordinal), cl, i), clauseProps(cl, pr), st.reach, Gt(t.T, li.progress[i]), "every iteration increases "+cl.Text, blockPos(li.header))
	}
	for i, cl := range li.spec.Decreases {
		t, _, err := sc.eval(cl.Expr)
		if err != nil {
			e.unsupported = fmt.Sprintf("loop %d decreases %q: %v", li.ordinal, cl.Text, err)
			return
		}
		v0 := li.variant[i]
		e.oblige("variant", e.clauseAnchor(fmt.Sprintf("loop%d", li.ordinal), cl, i), clauseProps(cl, pr), st.reach, And(Le(I(0), v0), Lt(t.T, v0)), "decreases "+cl.Text, blockPos(li.header))
	}
}

func clauseProps(cl Clause, def []string) []string {
	if len(cl.Props) > 0 {
		return cl.Props
	}
	return def
}

func (e *Enc) clauseAnchor(prefix string, cl Clause, i int) string {
	if cl.Label != "" {
		return prefix + "." + cl.Label
	}
	return fmt.Sprintf("%s.%d", prefix, i)
}

// havoc replaces the listed components by fresh values (and hwm by something not smaller).
func (e *Enc) havoc(st *State, ms *modSet, tag string) {
	nh := e.fresh("hwm", SInt)
	e.assume(st.reach, Ge(nh, st.hwm))
	st.hwm = nh
	var cks []*ssa.Alloc
	for k := range ms.cells {
		cks = append(cks, k)
	}
	sort.Slice(cks, func(i, j int) bool { return cks[i].Pos() < cks[j].Pos() })
	for _, k := range cks {
		t := k.Type().(*types.Pointer).Elem()
		c := e.fresh(tag+"_"+k.Comment, sortOf(t))
		e.assume(st.reach, e.typeAssume(c, t, st.hwm))
		if k.Comment == "rangeindex" && rangeIndexPattern(k) {
			// go/ssa lowers "for i := range slice" to an index cell that starts at -1 and is only incremented
			e.assume(st.reach, And(Ge(c, I(-1)), Le(c, IStr("72057594037927936"))))
		}
		st.cells[k] = c
	}
	var names []string
	if ms.all {
		for k := range e.compSort {
			// the activation trace and the panic flag are local to the activation: no callee changes them
			if !e.immutableComp(k) && !e.localGhost(k) && !strings.HasPrefix(k, "X:tr") && !strings.HasPrefix(k, "X:visited_") && k != "X:panicking" && !strings.HasPrefix(k, "X:defer_") && k != "X:protected" {
				names = append(names, k)
			}
		}
	} else {
		for k := range ms.heaps {
			names = append(names, k)
		}
	}
	sort.Strings(names)
	for _, k := range names {
		srt, ok := e.compSort[k]
		if !ok {
			// component not (yet) used in this function: remember it with a guessed sort later
			continue
		}
		old := e.comp(st, k, srt)
		c := e.fresh(tag+"_"+k, srt)
		st.heaps[k] = c
		e.compAssume(st, k, c, old)
	}
}

// compAssume: type facts for a freshly havoced scalar component (globals, ghosts).
func (e *Enc) compAssume(st *State, name string, c, old Term) {
	if strings.HasPrefix(name, "X:") {
		e.ghostAssume(st, name[2:], c, old)
	}
}

func (e *Enc) localGhost(k string) bool {
	if !strings.HasPrefix(k, "X:") {
		return false
	}
	for _, g := range e.P.Spec.Ghosts {
		if g.Local && g.Name == k[2:] {
			return true
		}
	}
	return false
}

func (e *Enc) immutableComp(k string) bool {
	if strings.HasPrefix(k, "G:") {
		return !e.P.mutableGlobal(k[2:])
	}
	return false
}

// ---------------------------------------------------------------------------
// Instructions

func (e *Enc) instr(st *State, ins ssa.Instruction) {
	ap := e.autoProps()
	switch ins := ins.(type) {
	case *ssa.Alloc:
		t := ins.Type().(*types.Pointer).Elem()
		if e.private[ins] {
			st.cells[ins] = e.zero(t)
			e.vals[ins] = Val{A: &Addr{kind: aCell, alloc: ins, sort: sortOf(t), typ: t}}
			return
		}
		r := e.allocRef(st, "new_"+ins.Comment)
		if isStructVal(t) {
			e.zeroStruct(st, r, t)
		} else if at, ok := t.Underlying().(*types.Array); ok {
			e.zeroArray(st, r, at)
		} else {
			a := &Addr{kind: aHeap, heap: "M:" + typeName(t), sort: sortOf(t), obj: r, typ: t}
			e.store(st, a, e.zero(t))
			e.vals[ins] = Val{A: a}
			return
		}
		e.vals[ins] = tv(r)
	case *ssa.Store:
		a := e.val(st, ins.Addr)
		v := e.val(st, ins.Val)
		t := ins.Val.Type()
		if v.A != nil {
			v = tv(e.ptrTerm(st, v))
		}
		e.frameCheck(st, ins, a)
		if a.A != nil && a.A.kind == aHeap {
			e.lockAccess(st, a.A.heap, a.A.obj, true, "store."+strings.TrimPrefix(a.A.heap, "H:"))
		}
		e.storeVal(st, a, v, t)
	case *ssa.UnOp:
		e.unop(st, ins)
	case *ssa.BinOp:
		x, y := e.val(st, ins.X), e.val(st, ins.Y)
		r := e.binop(st, ins.Op, e.asTerm(st, x), e.asTerm(st, y), ins.X.Type(), ins.Y.Type(), ins.Type(), ins.Pos())
		e.vals[ins] = tv(e.def(ins.Name(), r))
	case *ssa.FieldAddr:
		x := e.val(st, ins.X)
		structT := ins.X.Type().Underlying().(*types.Pointer).Elem()
		fname := structT.Underlying().(*types.Struct).Field(ins.Field).Name()
		e.oblige("nil", fname, ap, st.reach, Not(Eq(x.T, I(0))), "nil pointer dereference: ."+fname, ins.Pos())
		e.vals[ins] = e.fieldAddr(x.T, structT, ins.Field)
	case *ssa.Field:
		x := e.val(st, ins.X)
		structT := ins.X.Type()
		fa := e.fieldAddr(x.T, structT, ins.Field)
		if fa.A != nil {
			e.vals[ins] = tv(e.load(st, fa.A))
		} else {
			e.vals[ins] = fa
		}
	case *ssa.IndexAddr:
		e.indexAddr(st, ins)
	case *ssa.Index:
		x := e.val(st, ins.X)
		i := e.val(st, ins.Index).T
		if isString(ins.X.Type()) {
			e.declStr()
			e.oblige("idx", "string", ap, st.reach, And(Le(I(0), i), Lt(i, app(SInt, "strlen", x.T))), "string index out of range", ins.Pos())
			r := e.def(ins.Name(), app(SInt, "strat", x.T, i))
			e.assert(And(Le(I(0), r), Le(r, I(255))))
			e.vals[ins] = tv(r)
		} else if at, ok := ins.X.Type().Underlying().(*types.Array); ok {
			e.oblige("idx", "array", ap, st.reach, And(Le(I(0), i), Lt(i, I(at.Len()))), "array index out of range", ins.Pos())
			es := sortOf(at.Elem())
			h := e.comp(st, "E:"+es, arrSort(SInt, arrSort(SInt, es)))
			e.vals[ins] = tv(e.def(ins.Name(), Select(Select(h, x.T), i)))
		} else {
			e.warn("Index on %s", ins.X.Type())
			e.vals[ins] = tv(e.fresh(ins.Name(), sortOf(ins.Type())))
		}
	case *ssa.Slice:
		e.sliceInstr(st, ins)
	case *ssa.MakeSlice:
		l, c := e.val(st, ins.Len).T, e.val(st, ins.Cap).T
		e.oblige("make", "slice", ap, st.reach, And(Le(I(0), l), Le(l, c)), "makeslice: len out of range", ins.Pos())
		base := e.allocRef(st, "mk")
		et := ins.Type().Underlying().(*types.Slice).Elem()
		if !isStructVal(et) {
			es := sortOf(et)
			name := "E:" + es
			h := e.comp(st, name, arrSort(SInt, arrSort(SInt, es)))
			z := Term{fmt.Sprintf("((as const %s) %s)", arrSort(SInt, es), e.zero(et).S), arrSort(SInt, es)}
			st.heaps[name] = e.def("h", Store(h, base, z))
		}
		e.vals[ins] = tv(e.mkSlice(st, base, I(0), l, c))
	case *ssa.MakeMap:
		mt := ins.Type().Underlying().(*types.Map)
		m := e.allocRef(st, "map")
		pn := mapPHeap(mt)
		ps := arrSort(SInt, arrSort(sortOf(mt.Key()), SBool))
		h := e.comp(st, pn, ps)
		z := Term{fmt.Sprintf("((as const %s) false)", arrSort(sortOf(mt.Key()), SBool)), arrSort(sortOf(mt.Key()), SBool)}
		st.heaps[pn] = e.def("h", Store(h, m, z))
		e.vals[ins] = tv(m)
	case *ssa.MakeChan:
		sz := e.val(st, ins.Size).T
		e.oblige("make", "chan", ap, st.reach, Le(I(0), sz), "makechan: size out of range", ins.Pos())
		e.vals[ins] = tv(e.allocRef(st, "chan"))
	case *ssa.MakeInterface:
		x := e.val(st, ins.X)
		e.vals[ins] = tv(e.def(ins.Name(), e.mkIface(ins.X.Type(), e.asTerm(st, x))))
	case *ssa.MakeClosure:
		r := e.allocRef(st, "clo")
		fn := ins.Fn.(*ssa.Function)
		e.decls.fun("clo_fn", []string{"Int"}, "Int")
		e.assert(Eq(app(SInt, "clo_fn", r), e.val(st, fn).T))
		for i, b := range ins.Bindings {
			f := fmt.Sprintf("clo_fv%d", i)
			e.decls.fun(f, []string{"Int"}, "Int")
			e.assert(Eq(app(SInt, f, r), e.asTerm(st, e.val(st, b))))
		}
		if cc := e.P.Spec.Contracts[funcKey(fn)]; cc != nil && len(cc.Captures) > 0 {
			sc := e.specCtx(st, e.pre)
			sc.locals = false
			for i, b := range ins.Bindings {
				if i >= len(fn.FreeVars) {
					break
				}
				t := fn.FreeVars[i].Type().(*types.Pointer).Elem()
				sc.vars[fn.FreeVars[i].Name()] = e.loadVal(st, e.val(st, b), t)
				sc.vtypes[fn.FreeVars[i].Name()] = t
			}
			for i, cl := range cc.Captures {
				t, err := sc.evalBool(cl.Expr)
				if err != nil {
					e.unsupported = fmt.Sprintf("closure %s captures %q: %v", funcKey(fn), cl.Text, err)
					return
				}
				anchor := cl.Label
				if anchor == "" {
					anchor = fmt.Sprintf("captures%d", i)
				}
				e.oblige("pre", "closure."+fn.Name()+"."+anchor, clauseProps(cl, e.autoProps()), st.reach, t, "captured variables of "+funcKey(fn)+": "+cl.Text, ins.Pos())
			}
		}
		if e.c != nil {
			for _, cs := range e.c.CallSites {
				if cs.Callee != "closure:"+fn.Name() {
					continue
				}
				sc := e.specCtx(st, e.pre)
				sc.preferLocals = true
				for i, b := range ins.Bindings {
					if i >= len(fn.FreeVars) {
						break
					}
					t := fn.FreeVars[i].Type().(*types.Pointer).Elem()
					sc.vars[fn.FreeVars[i].Name()] = e.loadVal(st, e.val(st, b), t)
					sc.vtypes[fn.FreeVars[i].Name()] = t
				}
				t, err := sc.evalBool(cs.Clause.Expr)
				if err != nil {
					e.unsupported = fmt.Sprintf("closure %s: %q: %v", fn.Name(), cs.Clause.Text, err)
					return
				}
				anchor := cs.Clause.Label
				if anchor == "" {
					anchor = "closure." + fn.Name()
				}
				e.oblige("ghost", anchor, clauseProps(cs.Clause, e.autoProps()), st.reach, t, "where the closure "+fn.Name()+" is created: "+cs.Clause.Text, ins.Pos())
			}
		}
		e.vals[ins] = tv(r)
	case *ssa.ChangeType, *ssa.ChangeInterface:
		var x ssa.Value
		if ct, ok := ins.(*ssa.ChangeType); ok {
			x = ct.X
		} else {
			x = ins.(*ssa.ChangeInterface).X
		}
		e.vals[ins.(ssa.Value)] = e.val(st, x)
	case *ssa.Convert:
		e.convert(st, ins)
	case *ssa.TypeAssert:
		e.typeAssert(st, ins)
	case *ssa.Extract:
		t := e.val(st, ins.Tuple)
		if ins.Index < len(t.Tuple) {
			e.vals[ins] = t.Tuple[ins.Index]
		} else {
			e.warn("extract from non-tuple")
			e.vals[ins] = tv(e.fresh(ins.Name(), sortOf(ins.Type())))
		}
	case *ssa.Phi:
		// values flow from predecessor blocks; use the reach of the incoming edge states
		var t Term
		first := true
		for i := len(ins.Edges) - 1; i >= 0; i-- {
			pred := ins.Block().Preds[i]
			es := e.edgeState(pred, ins.Block())
			v := e.asTerm(st, e.val(st, ins.Edges[i]))
			if es == nil {
				continue
			}
			if first {
				t = v
				first = false
			} else {
				t = Ite(es.reach, v, t)
			}
		}
		if first {
			t = e.fresh(ins.Name(), sortOf(ins.Type()))
		}
		e.vals[ins] = tv(e.def(ins.Name(), t))
	case *ssa.Lookup:
		e.lookup(st, ins)
	case *ssa.MapUpdate:
		m := e.val(st, ins.Map).T
		mt := ins.Map.Type().Underlying().(*types.Map)
		e.oblige("nil", "mapupdate", ap, st.reach, Not(Eq(m, I(0))), "assignment to entry in nil map", ins.Pos())
		k := e.asTerm(st, e.val(st, ins.Key))
		v := e.asTerm(st, e.val(st, ins.Value))
		e.frameCheckMap(st, ins, m)
		if g, ok := e.guardedMaps[ins.Map]; ok {
			e.lockAccess(st, g.heap, g.obj, true, "mapupdate")
		}
		e.mapStore(st, mt, m, k, v)
	case *ssa.Range:
		e.vals[ins] = e.val(st, ins.X)
		if mt, ok := ins.X.Type().Underlying().(*types.Map); ok {
			// map iteration (language spec): every entry that is present when the iteration starts and is not removed during it is
			// produced exactly once; ghost: the set of keys produced so far (empty now) and the key set at the start
			e.noteAssumption("map iteration (language specification): a range over a map produces every entry that is present when the iteration starts and is not removed during it exactly once (ghost visited set)")
			ks := sortOf(mt.Key())
			name := visitedComp(ins)
			e.compSort[name] = arrSort(ks, SBool)
			st.heaps[name] = Term{"((as const " + arrSort(ks, SBool) + ") false)", arrSort(ks, SBool)}
			ps := arrSort(SInt, arrSort(ks, SBool))
			e.rangeStart[ins] = e.def("range_keys", Select(e.comp(st, mapPHeap(mt), ps), e.val(st, ins.X).T))
		}
	case *ssa.Next:
		e.next(st, ins)
	case *ssa.Call:
		r := e.call(st, ins.Common(), ins, false)
		e.vals[ins] = r
	case *ssa.Defer:
		name := fmt.Sprintf("X:defer_%d_%d", ins.Block().Index, instrIndex(ins))
		e.compSort[name] = SBool
		st.heaps[name] = TTrue
		if fn := ins.Call.StaticCallee(); fn != nil && fn.Name() == "recoverFunc" {
			e.protected = true
			st.heaps["X:protected"] = TTrue
			e.compSort["X:protected"] = SBool
		}
		// argument values are evaluated now
		for _, a := range ins.Call.Args {
			e.val(st, a)
		}
	case *ssa.RunDefers:
		e.runDefers(st)
	case *ssa.Go:
		e.goStmt(st, ins)
	case *ssa.Select:
		e.selectInstr(st, ins)
	case *ssa.Send:
		e.val(st, ins.Chan)
		e.warn("blocking channel send")
	case *ssa.Return:
		e.ret(st, ins)
	case *ssa.Panic:
		if e.c == nil || !e.c.MayPanic {
			e.oblige("panic", "explicit", ap, st.reach, TFalse, "explicit panic reachable", ins.Pos())
		} else if len(e.c.PanicsOnlyWhen) > 0 {
			sc := e.specCtx(st, e.pre)
			var alts []Term
			for _, cl := range e.c.PanicsOnlyWhen {
				t, err := sc.evalBool(cl.Expr)
				if err != nil {
					e.unsupported = "panics_only_when: " + err.Error()
					return
				}
				alts = append(alts, t)
			}
			e.oblige("panic", "allowed", e.c.Props, st.reach, Or(alts...), "this panic is raised only in one of the documented misuse cases", ins.Pos())
		}
	case *ssa.If, *ssa.Jump:
	case *ssa.DebugRef:
	default:
		e.warn("unhandled instruction %T", ins)
		if v, ok := ins.(ssa.Value); ok {
			e.vals[v] = tv(e.fresh(v.Name(), sortOf(v.Type())))
		}
	}
}

func instrIndex(ins ssa.Instruction) int {
	for i, x := range ins.Block().Instrs {
		if x == ins {
			return i
		}
	}
	return -1
}

func (e *Enc) edgeState(pred, b *ssa.BasicBlock) *State {
	return e.edgeOut[[2]int{pred.Index, b.Index}]
}

func (e *Enc) asTerm(st *State, v Val) Term {
	if v.A != nil {
		return e.ptrTerm(st, v)
	}
	return v.T
}

// callsRecover: the function's own body calls the builtin recover().
func callsRecover(fn *ssa.Function) bool {
	for _, b := range fn.Blocks {
		for _, ins := range b.Instrs {
			if c, ok := ins.(*ssa.Call); ok {
				if bi, ok := c.Call.Value.(*ssa.Builtin); ok && bi.Name() == "recover" {
					return true
				}
			}
		}
	}
	return false
}

func (e *Enc) unop(st *State, ins *ssa.UnOp) {
	ap := e.autoProps()
	x := e.val(st, ins.X)
	switch ins.Op {
	case token.MUL:
		t := ins.Type()
		if x.A == nil {
			e.oblige("nil", "load", ap, st.reach, Not(Eq(x.T, I(0))), "nil pointer dereference", ins.Pos())
		}
		if x.A != nil && x.A.kind == aHeap {
			if _, guarded := e.guardOfHeap(x.A.heap); guarded {
				e.lockAccess(st, x.A.heap, x.A.obj, false, "load."+strings.TrimPrefix(x.A.heap, "H:"))
				if _, isMap := t.Underlying().(*types.Map); isMap {
					if e.guardedMaps == nil {
						e.guardedMaps = map[ssa.Value]guardedMap{}
					}
					e.guardedMaps[ins] = guardedMap{x.A.heap, x.A.obj}
				}
			}
		}
		v := e.loadVal(st, x, t)
		if v.T.Sort != "" && (x.A == nil || x.A.kind != aCell) {
			v.T = e.def(ins.Name(), v.T)
			e.assume(st.reach, e.typeAssume(v.T, t, st.hwm))
			// (not inside package parser: there the tree is being BUILT - the value stack's `expr` slot also carries
			// operator nodes - and well-formedness is nothing to assume)
			if iface := astNodeInterface(t); iface != "" && (x.A == nil || x.A.kind != aCell) && (e.pkg == nil || pkgShort(e.pkg) != "parser") {
				// AST well-formedness (closed world): a node-typed field holds nil or one of package ast's node types
				e.noteAssumption("AST well-formedness: Expr/Stmt/Operator fields hold nil or a node type of package ast")
				sc := e.specCtx(st, e.pre)
				if k, err := sc.childrenFormula(true, v.T, iface); err == nil {
					e.assume(st.reach, k)
				}
			}
		}
		e.vals[ins] = v
	case token.NOT:
		e.vals[ins] = tv(Not(x.T))
	case token.SUB:
		if x.T.Sort == SF64 {
			e.vals[ins] = tv(app(SF64, "fp.neg", x.T))
		} else {
			e.vals[ins] = tv(e.def(ins.Name(), e.wrapTo(Sub(I(0), x.T), ins.Type())))
		}
	case token.XOR:
		if isUnsigned(ins.Type()) {
			_, hi, _ := intRange(ins.Type())
			e.vals[ins] = tv(e.def(ins.Name(), Sub(IStr(hi), x.T)))
		} else {
			e.vals[ins] = tv(e.def(ins.Name(), Sub(Sub(I(0), x.T), I(1))))
		}
	case token.ARROW:
		e.warn("blocking channel receive")
		et := ins.X.Type().Underlying().(*types.Chan).Elem()
		v := e.fresh("recv", sortOf(et))
		e.assume(st.reach, e.typeAssume(v, et, st.hwm))
		if ins.CommaOk {
			e.vals[ins] = Val{Tuple: []Val{tv(v), tv(e.fresh("recvok", SBool))}}
		} else {
			e.vals[ins] = tv(v)
		}
	default:
		e.warn("unhandled unop %s", ins.Op)
		e.vals[ins] = tv(e.fresh(ins.Name(), sortOf(ins.Type())))
	}
}

func (e *Enc) indexAddr(st *State, ins *ssa.IndexAddr) {
	ap := e.autoProps()
	x := e.val(st, ins.X)
	i := e.val(st, ins.Index).T
	var base, idx Term
	var et types.Type
	anchor := valueAnchor(ins.X)
	switch xt := ins.X.Type().Underlying().(type) {
	case *types.Slice:
		e.declSlice()
		et = xt.Elem()
		base = app(SInt, "sl_base", x.T)
		idx = e.eix(app(SInt, "sl_off", x.T), i)
		e.oblige("idx", anchor, ap, st.reach, And(Le(I(0), i), Lt(i, app(SInt, "sl_len", x.T))), "slice index out of range", ins.Pos())
	case *types.Pointer:
		at := xt.Elem().Underlying().(*types.Array)
		et = at.Elem()
		base = x.T
		idx = i
		if _, isGlobal := ins.X.(*ssa.Global); !isGlobal {
			if _, isAlloc := ins.X.(*ssa.Alloc); !isAlloc {
				e.oblige("nil", anchor, ap, st.reach, Not(Eq(x.T, I(0))), "nil array pointer", ins.Pos())
			}
		}
		e.oblige("idx", anchor, ap, st.reach, And(Le(I(0), i), Lt(i, I(at.Len()))), "array index out of range", ins.Pos())
	}
	if isStructVal(et) {
		e.vals[ins] = tv(e.def(ins.Name(), e.elemRef(base, idx)))
		return
	}
	if _, ok := et.Underlying().(*types.Array); ok {
		e.vals[ins] = tv(e.def(ins.Name(), e.elemRef(base, idx)))
		return
	}
	e.vals[ins] = Val{A: &Addr{kind: aElem, heap: "E:" + sortOf(et), sort: sortOf(et), obj: e.def("base", base), idx: e.def("idx", idx), typ: et}}
}

func valueAnchor(v ssa.Value) string {
	switch v := v.(type) {
	case *ssa.Global:
		return v.Name()
	case *ssa.UnOp:
		if v.Op == token.MUL {
			return valueAnchor(v.X)
		}
	case *ssa.Alloc:
		if v.Comment != "" {
			return v.Comment
		}
	case *ssa.FieldAddr:
		st := v.X.Type().Underlying().(*types.Pointer).Elem().Underlying().(*types.Struct)
		return st.Field(v.Field).Name()
	case *ssa.Parameter:
		return v.Name()
	case *ssa.Call:
		if f := v.Common().StaticCallee(); f != nil {
			return f.Name()
		}
		if v.Common().IsInvoke() {
			return v.Common().Method.Name()
		}
	case *ssa.Slice:
		return valueAnchor(v.X)
	case *ssa.Extract:
		return valueAnchor(v.Tuple)
	case *ssa.Field:
		st := v.X.Type().Underlying().(*types.Struct)
		return st.Field(v.Field).Name()
	}
	return "v"
}

func (e *Enc) sliceInstr(st *State, ins *ssa.Slice) {
	ap := e.autoProps()
	x := e.val(st, ins.X)
	opt := func(v ssa.Value) (Term, bool) {
		if v == nil {
			return Term{}, false
		}
		return e.val(st, v).T, true
	}
	lo, hasLo := opt(ins.Low)
	hi, hasHi := opt(ins.High)
	mx, hasMax := opt(ins.Max)
	if !hasLo {
		lo = I(0)
	}
	anchor := valueAnchor(ins.X)
	switch xt := ins.X.Type().Underlying().(type) {
	case *types.Basic: // string
		e.declStr()
		ln := app(SInt, "strlen", x.T)
		if !hasHi {
			hi = ln
		}
		e.oblige("idx", anchor, ap, st.reach, And(Le(I(0), lo), Le(lo, hi), Le(hi, ln)), "string slice bounds out of range", ins.Pos())
		e.decls.fun("substr", []string{"Int", "Int", "Int"}, "Int")
		r := e.def(ins.Name(), app(SInt, "substr", x.T, lo, hi))
		e.assume(st.reach, Eq(app(SInt, "strlen", r), Sub(hi, lo)))
		e.assume(st.reach, Imp(And(Eq(lo, I(0)), Eq(hi, ln)), Eq(r, x.T)))
		e.vals[ins] = tv(r)
	case *types.Slice:
		e.declSlice()
		ln, cp := app(SInt, "sl_len", x.T), app(SInt, "sl_cap", x.T)
		if !hasHi {
			hi = ln
		}
		if !hasMax {
			mx = cp
		}
		e.oblige("idx", anchor, ap, st.reach, And(Le(I(0), lo), Le(lo, hi), Le(hi, mx), Le(mx, cp)), "slice bounds out of range", ins.Pos())
		s := e.mkSlice(st, app(SInt, "sl_base", x.T), Add(app(SInt, "sl_off", x.T), lo), Sub(hi, lo), Sub(mx, lo))
		e.vals[ins] = tv(s)
	case *types.Pointer:
		at := xt.Elem().Underlying().(*types.Array)
		n := I(at.Len())
		if !hasHi {
			hi = n
		}
		if !hasMax {
			mx = n
		}
		e.oblige("idx", anchor, ap, st.reach, And(Le(I(0), lo), Le(lo, hi), Le(hi, mx), Le(mx, n)), "slice bounds out of range", ins.Pos())
		s := e.mkSlice(st, x.T, lo, Sub(hi, lo), Sub(mx, lo))
		e.vals[ins] = tv(s)
	}
}

func (e *Enc) convert(st *State, ins *ssa.Convert) {
	x := e.val(st, ins.X)
	from, to := ins.X.Type(), ins.Type()
	xt := e.asTerm(st, x)
	switch {
	case isInteger(from) && isInteger(to):
		flo, fhi, _ := intRange(from)
		tlo, thi, _ := intRange(to)
		if fits(flo, fhi, tlo, thi) {
			e.vals[ins] = tv(xt)
		} else {
			e.vals[ins] = tv(e.def(ins.Name(), e.wrapMod(xt, to)))
		}
	case isInteger(from) && isFloat(to):
		e.decls.fun("i2f", []string{"Int"}, SF64)
		e.vals[ins] = tv(app(SF64, "i2f", xt))
	case isFloat(from) && isInteger(to):
		e.decls.fun("f2i", []string{SF64}, "Int")
		r := e.def(ins.Name(), app(SInt, "f2i", xt))
		e.assert(e.typeAssume(r, to, I(0)))
		e.vals[ins] = tv(r)
	case isFloat(from) && isFloat(to):
		if from.Underlying().(*types.Basic).Kind() == to.Underlying().(*types.Basic).Kind() || to.Underlying().(*types.Basic).Kind() == types.Float64 {
			e.vals[ins] = tv(xt)
		} else {
			e.decls.fun("f64to32", []string{SF64}, SF64)
			e.vals[ins] = tv(app(SF64, "f64to32", xt))
		}
	case isString(to) && isInteger(from):
		e.declStr()
		e.decls.fun("str_of_rune", []string{"Int"}, "Int")
		r := app(SInt, "str_of_rune", xt)
		e.assert(And(Le(I(1), app(SInt, "strlen", r)), Le(app(SInt, "strlen", r), I(4))))
		e.vals[ins] = tv(r)
	case isString(to):
		// []byte / []rune -> string : depends on heap contents; opaque
		e.declStr()
		e.declSlice()
		r := e.fresh("str", SInt)
		e.assume(st.reach, Le(I(0), app(SInt, "strlen", r)))
		if sl, ok := from.Underlying().(*types.Slice); ok && sortOf(sl.Elem()) == SInt {
			if b, ok := sl.Elem().Underlying().(*types.Basic); ok && b.Kind() == types.Uint8 {
				e.assume(st.reach, Eq(app(SInt, "strlen", r), app(SInt, "sl_len", xt)))
			} else {
				e.assume(st.reach, Ge(app(SInt, "strlen", r), app(SInt, "sl_len", xt)))
			}
		}
		e.vals[ins] = tv(r)
	case isString(from):
		// string -> []byte / []rune
		e.declStr()
		base := e.allocRef(st, "conv")
		ln := e.fresh("len", SInt)
		if sl, ok := to.Underlying().(*types.Slice); ok {
			if b, ok := sl.Elem().Underlying().(*types.Basic); ok && b.Kind() == types.Uint8 {
				e.assume(st.reach, Eq(ln, app(SInt, "strlen", xt)))
			} else {
				e.assume(st.reach, And(Le(I(0), ln), Le(ln, app(SInt, "strlen", xt))))
				// a non-empty string has at least one rune
				e.assume(st.reach, Imp(Lt(I(0), app(SInt, "strlen", xt)), Le(I(1), ln)))
			}
			// contents unknown: havoc the fresh base's element array
			es := sortOf(sl.Elem())
			name := "E:" + es
			h := e.comp(st, name, arrSort(SInt, arrSort(SInt, es)))
			st.heaps[name] = e.def("h", Store(h, base, e.fresh("contents", arrSort(SInt, es))))
		}
		e.vals[ins] = tv(e.mkSlice(st, base, I(0), ln, ln))
	default:
		e.vals[ins] = tv(xt)
	}
}

func fits(flo, fhi, tlo, thi string) bool {
	cmp := func(a, b string) int {
		x, y := IStr(a), IStr(b)
		_ = x
		_ = y
		return bigCmp(a, b)
	}
	return cmp(flo, tlo) >= 0 && cmp(fhi, thi) <= 0
}

func bigCmp(a, b string) int {
	na, nb := strings.HasPrefix(a, "-"), strings.HasPrefix(b, "-")
	if na != nb {
		if na {
			return -1
		}
		return 1
	}
	a2, b2 := strings.TrimPrefix(a, "-"), strings.TrimPrefix(b, "-")
	c := 0
	if len(a2) != len(b2) {
		if len(a2) < len(b2) {
			c = -1
		} else {
			c = 1
		}
	} else {
		c = strings.Compare(a2, b2)
	}
	if na {
		return -c
	}
	return c
}

func (e *Enc) typeAssert(st *State, ins *ssa.TypeAssert) {
	e.declIface()
	x := e.val(st, ins.X).T
	var ok Term
	var v Term
	if _, isIface := ins.AssertedType.Underlying().(*types.Interface); isIface {
		if it := ins.AssertedType.Underlying().(*types.Interface); it.NumMethods() == 0 {
			ok = Not(Eq(x, I(0)))
		} else {
			ok = And(Not(Eq(x, I(0))), app(SBool, e.implPred(ins.AssertedType), app(SInt, "dyn", x)))
		}
		v = x
	} else {
		ok = Eq(app(SInt, "dyn", x), e.tid(ins.AssertedType))
		v = e.unbox(app(SInt, "ival", x), ins.AssertedType)
	}
	okc := e.def(ins.Name()+"_ok", ok)
	if isAstNodePtr(ins.AssertedType) {
		// AST well-formedness (trees come from the parser): an interface never holds a typed-nil node pointer
		e.noteAssumption("AST well-formedness: ast.Stmt/Expr/Operator interfaces never hold typed-nil node pointers")
		e.assume(st.reach, Imp(okc, Not(Eq(v, I(0)))))
	}
	if ins.CommaOk {
		r := e.def(ins.Name(), Ite(okc, v, e.zero(ins.AssertedType)))
		e.assume(st.reach, Imp(okc, e.typeAssume(r, ins.AssertedType, st.hwm)))
		e.vals[ins] = Val{Tuple: []Val{tv(r), tv(okc)}}
		return
	}
	e.oblige("assert", typeName(ins.AssertedType), e.autoProps(), st.reach, okc, "type assertion to "+typeName(ins.AssertedType), ins.Pos())
	r := e.def(ins.Name(), v)
	e.assume(st.reach, e.typeAssume(r, ins.AssertedType, st.hwm))
	e.vals[ins] = tv(r)
}

// astNodeInterface: t is one of ast.Expr / ast.Stmt / ast.Operator.
func astNodeInterface(t types.Type) string {
	n, ok := t.(*types.Named)
	if !ok || n.Obj().Pkg() == nil || !isAnkoPkg(n.Obj().Pkg()) || n.Obj().Pkg().Name() != "ast" {
		return ""
	}
	switch n.Obj().Name() {
	case "Expr", "Stmt", "Operator":
		return n.Obj().Name()
	}
	return ""
}

func isAstNodePtr(t types.Type) bool {
	p, ok := t.(*types.Pointer)
	if !ok {
		return false
	}
	n, ok := p.Elem().(*types.Named)
	if !ok || n.Obj().Pkg() == nil {
		return false
	}
	_, isStruct := n.Underlying().(*types.Struct)
	return isStruct && isAnkoPkg(n.Obj().Pkg()) && n.Obj().Pkg().Name() == "ast"
}

func (e *Enc) mapPresent(st *State, mt *types.Map, m, k Term) Term {
	ps := arrSort(SInt, arrSort(sortOf(mt.Key()), SBool))
	h := e.comp(st, mapPHeap(mt), ps)
	return And(Not(Eq(m, I(0))), Select(Select(h, m), k))
}
func (e *Enc) mapValue(st *State, mt *types.Map, m, k Term) Term {
	vs := arrSort(SInt, arrSort(sortOf(mt.Key()), sortOf(mt.Elem())))
	h := e.comp(st, mapVHeap(mt), vs)
	return Select(Select(h, m), k)
}
func (e *Enc) mapStore(st *State, mt *types.Map, m, k, v Term) {
	ps := arrSort(SInt, arrSort(sortOf(mt.Key()), SBool))
	vs := arrSort(SInt, arrSort(sortOf(mt.Key()), sortOf(mt.Elem())))
	hp := e.comp(st, mapPHeap(mt), ps)
	hv := e.comp(st, mapVHeap(mt), vs)
	st.heaps[mapPHeap(mt)] = e.def("h", Store(hp, m, Store(Select(hp, m), k, TTrue)))
	st.heaps[mapVHeap(mt)] = e.def("h", Store(hv, m, Store(Select(hv, m), k, v)))
}

func (e *Enc) lookup(st *State, ins *ssa.Lookup) {
	x := e.val(st, ins.X).T
	k := e.asTerm(st, e.val(st, ins.Index))
	if mt, ok := ins.X.Type().Underlying().(*types.Map); ok {
		if g, ok := e.guardedMaps[ins.X]; ok {
			e.lockAccess(st, g.heap, g.obj, false, "lookup")
		}
		present := e.def(ins.Name()+"_ok", e.mapPresent(st, mt, x, k))
		v := e.def(ins.Name(), Ite(present, e.mapValue(st, mt, x, k), e.zero(mt.Elem())))
		e.assume(st.reach, e.typeAssume(v, mt.Elem(), st.hwm))
		if ins.CommaOk {
			e.vals[ins] = Val{Tuple: []Val{tv(v), tv(present)}}
		} else {
			e.vals[ins] = tv(v)
		}
		return
	}
	// string
	e.declStr()
	e.oblige("idx", "string", e.autoProps(), st.reach, And(Le(I(0), k), Lt(k, app(SInt, "strlen", x))), "string index out of range", ins.Pos())
	e.vals[ins] = tv(e.def(ins.Name(), app(SInt, "strat", x, k)))
}

func (e *Enc) next(st *State, ins *ssa.Next) {
	rng := ins.Iter.(*ssa.Range)
	x := e.val(st, rng.X).T
	ok := e.fresh("next_ok", SBool)
	if ins.IsString {
		e.declStr()
		i := e.fresh("next_i", SInt)
		r := e.fresh("next_r", SInt)
		e.assume(st.reach, Imp(ok, And(Le(I(0), i), Lt(i, app(SInt, "strlen", x)), Le(I(0), r), Le(r, I(1114111)))))
		e.vals[ins] = Val{Tuple: []Val{tv(ok), tv(i), tv(r)}}
		return
	}
	mt := rng.X.Type().Underlying().(*types.Map)
	if g, ok := e.guardedMaps[rng.X]; ok {
		e.lockAccess(st, g.heap, g.obj, false, "range")
	}
	k := e.fresh("next_k", sortOf(mt.Key()))
	e.assume(st.reach, Imp(ok, And(e.mapPresent(st, mt, x, k), e.typeAssume(k, mt.Key(), st.hwm))))
	if start, has := e.rangeStart[rng]; has {
		name := visitedComp(rng)
		vs := arrSort(sortOf(mt.Key()), SBool)
		vis := e.comp(st, name, vs)
		// a produced key was not produced before; when the iteration ends, every key that was present at its start and still is
		// present has been produced
		e.assume(st.reach, Imp(ok, Not(Select(vis, k))))
		q := e.fresh("qk", sortOf(mt.Key()))
		e.assume(st.reach, Imp(Not(ok), Term{"(forall ((" + q.S + " " + sortOf(mt.Key()) + ")) (=> (and (select " + start.S + " " + q.S + ") " + e.mapPresent(st, mt, x, q).S + ") (select " + vis.S + " " + q.S + ")))", SBool}))
		st.heaps[name] = e.def("visited", Ite(ok, Store(vis, k, TTrue), vis))
	}
	v := e.def("next_v", e.mapValue(st, mt, x, k))
	e.assume(st.reach, Imp(ok, e.typeAssume(v, mt.Elem(), st.hwm)))
	e.vals[ins] = Val{Tuple: []Val{tv(ok), tv(k), tv(v)}}
}

func (e *Enc) selectInstr(st *State, ins *ssa.Select) {
	n := len(ins.States)
	idx := e.fresh("sel_idx", SInt)
	lo := I(0)
	if !ins.Blocking {
		lo = I(-1)
	}
	e.assume(st.reach, And(Le(lo, idx), Lt(idx, I(int64(n)))))
	tuple := []Val{tv(idx), tv(e.fresh("sel_ok", SBool))}
	for _, s := range ins.States {
		e.val(st, s.Chan)
		if s.Dir == types.RecvOnly {
			et := s.Chan.Type().Underlying().(*types.Chan).Elem()
			v := e.fresh("sel_recv", sortOf(et))
			tuple = append(tuple, tv(v))
		}
	}
	e.selectHook(st, ins, idx)
	e.vals[ins] = Val{Tuple: tuple}
}

func (e *Enc) ret(st *State, ins *ssa.Return) {
	k := e.retCount
	e.retCount++
	e.covers = append(e.covers, cover{reach: st.reach, prefix: len(e.body), blk: e.curBlk, pos: e.pos(ins.Pos())})
	if e.c == nil {
		return
	}
	var results []Val
	for _, r := range ins.Results {
		results = append(results, e.val(st, r))
	}
	e.useLemmas(st, results...)
	sc := e.specCtx(st, e.pre)
	sc.bindResults(results, e.fn.Signature.Results())
	for i, cl := range e.c.Ensures {
		if cl.Free {
			continue
		}
		t, err := sc.evalBool(cl.Expr)
		if err != nil {
			e.unsupported = fmt.Sprintf("ensures %q: %v", cl.Text, err)
			return
		}
		anchor := cl.Label
		if anchor == "" {
			anchor = fmt.Sprintf("ensures%d", i)
		}
		_ = k
		// postconditions are independent obligations: a failing one (a known finding, say) must not be assumed for
		// the ones after it on the same return path
		e.obligeNoAssume("post", anchor, clauseProps(cl, e.autoProps()), st.reach, t, cl.Text, ins.Pos())
	}
	e.frameAtReturn(st, ins)
}

// visitedComp: name of the ghost state component "keys produced so far" of one map iteration.
func visitedComp(r *ssa.Range) string {
	return fmt.Sprintf("X:visited_%d_%d", r.Block().Index, instrIndex(r))
}
