package main

import (
	"fmt"
	"go/ast"
	"go/parser"
	"go/token"
	"go/types"
	"os"
	"path/filepath"
	"sort"
	"strings"
	"sync"

	"golang.org/x/tools/go/packages"
	"golang.org/x/tools/go/ssa"
	"golang.org/x/tools/go/ssa/ssautil"
)

const ankoPath = "github.com/mattn/anko"

type Prog struct {
	RepoDir  string
	Pkgs     []*packages.Package
	SSA      *ssa.Program
	SSAPkgs  map[string]*ssa.Package // by import path
	ByName   map[string]*types.Package
	Funcs    map[string]*ssa.Function // key: "<pkgname>.<RelString>"
	FuncKeys []string
	Spec     *SpecFile
	Fset     *token.FileSet

	mutGlobals map[string][]string
	typeIDs   map[string]int
	typeByID  []types.Type
	SpecFiles []string
}

func isAnkoPkg(p *types.Package) bool {
	return p != nil && (p.Path() == ankoPath || strings.HasPrefix(p.Path(), ankoPath+"/"))
}

func pkgShort(p *types.Package) string {
	if p.Path() == ankoPath {
		return "main"
	}
	if strings.HasPrefix(p.Path(), ankoPath+"/cmd/") {
		return "cmd_" + sanitize(strings.TrimPrefix(p.Path(), ankoPath+"/cmd/"))
	}
	if p.Path() == ankoPath+"/ast/astutil" {
		return "astutil"
	}
	return p.Name()
}

func funcKey(f *ssa.Function) string {
	if f.Pkg != nil && isAnkoPkg(f.Pkg.Pkg) {
		return pkgShort(f.Pkg.Pkg) + "." + f.RelString(f.Pkg.Pkg)
	}
	if f.Pkg == nil {
		// methods of external types, wrappers
		if f.Signature.Recv() != nil {
			if p := recvPkg(f.Signature.Recv().Type()); p != nil && isAnkoPkg(p) {
				return pkgShort(p) + "." + f.RelString(p)
			}
		}
	}
	return f.String()
}

func recvPkg(t types.Type) *types.Package {
	if p, ok := t.(*types.Pointer); ok {
		t = p.Elem()
	}
	if n, ok := t.(*types.Named); ok {
		return n.Obj().Pkg()
	}
	return nil
}

func loadProg(repo string, trustedDir string) (*Prog, error) {
	cfg := &packages.Config{
		Mode:       packages.LoadAllSyntax,
		Dir:        repo,
		BuildFlags: []string{"-tags=verif"},
		Env:        append(os.Environ(), "GOFLAGS=-mod=mod", "GOPROXY=off", "GOSUMDB=off", "GOTOOLCHAIN=local"),
	}
	// C03: the grammar's semantic actions, extracted from parser.go into an overlay file (see actions.go)
	if content, _, aerr := extractActions(filepath.Join(repo, "parser", "parser.go")); aerr == nil {
		cfg.Overlay = map[string][]byte{filepath.Join(repo, "parser", actionsOverlayName): content}
	} else {
		fmt.Fprintln(os.Stderr, "govc: semantic actions not extracted:", aerr)
	}
	pkgs, err := packages.Load(cfg, "./...")
	if err != nil {
		return nil, err
	}
	var errs []string
	packages.Visit(pkgs, nil, func(p *packages.Package) {
		if isAnkoPkgPath(p.PkgPath) {
			for _, e := range p.Errors {
				errs = append(errs, e.Error())
			}
		}
	})
	if len(errs) > 0 {
		return nil, fmt.Errorf("load errors: %s", strings.Join(errs, "; "))
	}
	prog, spkgs := ssautil.Packages(pkgs, ssa.NaiveForm)
	P := &Prog{RepoDir: repo, Pkgs: pkgs, SSA: prog, SSAPkgs: map[string]*ssa.Package{}, ByName: map[string]*types.Package{},
		Funcs: map[string]*ssa.Function{}, typeIDs: map[string]int{}, typeByID: []types.Type{nil}}
	if len(pkgs) > 0 {
		P.Fset = pkgs[0].Fset
	}
	for _, sp := range spkgs {
		if sp == nil {
			continue
		}
		sp.Build()
		P.SSAPkgs[sp.Pkg.Path()] = sp
	}
	for _, p := range prog.AllPackages() {
		n := p.Pkg.Name()
		if isAnkoPkg(p.Pkg) {
			n = pkgShort(p.Pkg)
			P.ByName[n] = p.Pkg
			if p.Pkg.Name() != "main" {
				P.ByName[p.Pkg.Name()] = p.Pkg
			}
		} else if _, ok := P.ByName[n]; !ok {
			P.ByName[n] = p.Pkg
		}
	}
	// collect functions of anko packages
	for _, sp := range spkgs {
		if sp == nil || !isAnkoPkg(sp.Pkg) {
			continue
		}
		var add func(f *ssa.Function)
		add = func(f *ssa.Function) {
			if f == nil || f.Blocks == nil {
				return
			}
			k := funcKey(f)
			if _, dup := P.Funcs[k]; dup {
				return
			}
			P.Funcs[k] = f
			for _, a := range f.AnonFuncs {
				add(a)
			}
		}
		for _, m := range sp.Members {
			switch m := m.(type) {
			case *ssa.Function:
				add(m)
			case *ssa.Type:
				for _, t := range []types.Type{m.Type(), types.NewPointer(m.Type())} {
					ms := prog.MethodSets.MethodSet(t)
					for i := 0; i < ms.Len(); i++ {
						f := prog.MethodValue(ms.At(i))
						if f != nil && f.Synthetic == "" {
							add(f)
						}
					}
				}
			}
		}
	}
	for k := range P.Funcs {
		P.FuncKeys = append(P.FuncKeys, k)
	}
	sort.Strings(P.FuncKeys)

	// contracts: zz_contracts_verif.go in each package dir + trusted/*.spec
	P.Spec = newSpecFile()
	for _, p := range pkgs {
		if !isAnkoPkgPath(p.PkgPath) {
			continue
		}
		dir := repo
		if p.PkgPath != ankoPath {
			dir = filepath.Join(repo, strings.TrimPrefix(p.PkgPath, ankoPath+"/"))
		}
		matches, _ := filepath.Glob(filepath.Join(dir, "zz_contracts*_verif.go"))
		sort.Strings(matches)
		for _, m := range matches {
			sub := newSpecFile()
			if err := loadSpecFile(m, sub); err != nil {
				return nil, err
			}
			short := pkgShortPath(p.PkgPath, p.Name)
			if err := P.Spec.merge(sub, short+"."); err != nil {
				return nil, err
			}
			P.SpecFiles = append(P.SpecFiles, m)
		}
	}
	if err := resolveActionContracts(P, P.Spec); err != nil {
		return nil, err
	}
	tfiles, _ := filepath.Glob(filepath.Join(trustedDir, "*.spec"))
	sort.Strings(tfiles)
	for _, m := range tfiles {
		sub := newSpecFile()
		if err := loadSpecFile(m, sub); err != nil {
			return nil, err
		}
		for _, c := range sub.Contracts {
			c.Trusted = true
		}
		if err := P.Spec.merge(sub, ""); err != nil {
			return nil, err
		}
		P.SpecFiles = append(P.SpecFiles, m)
	}
	computeTransparentExt(P)
	if err := P.Spec.resolveLikes(); err != nil {
		return nil, err
	}
	return P, nil
}

func (sf *SpecFile) resolveLikes() error {
	done := map[string]bool{}
	var resolve func(c *Contract, depth int) error
	resolve = func(c *Contract, depth int) error {
		if done[c.Key] {
			return nil
		}
		if depth > 5 {
			return fmt.Errorf("like: cycle at %s", c.Key)
		}
		for _, l := range c.Likes {
			prefix := ""
			if i := strings.Index(c.Key, "."); i > 0 {
				prefix = c.Key[:i+1]
			}
			t := sf.Contracts[prefix+l]
			if t == nil {
				t = sf.Contracts[l]
			}
			if t == nil {
				return fmt.Errorf("%s: like %s: no such contract", c.Key, l)
			}
			if err := resolve(t, depth+1); err != nil {
				return err
			}
			c.Requires = append(append([]Clause(nil), t.Requires...), c.Requires...)
			c.Ensures = append(append([]Clause(nil), t.Ensures...), c.Ensures...)
			c.EnsuresOnPanic = append(append([]Clause(nil), t.EnsuresOnPanic...), c.EnsuresOnPanic...)
			c.Modifies = append(append([]string(nil), t.Modifies...), c.Modifies...)
			if t.ModifiesAll {
				c.ModifiesAll = true
			}
			c.Uses = append(append([]SCall(nil), t.Uses...), c.Uses...)
			c.DefaultInv = append(append([]Clause(nil), t.DefaultInv...), c.DefaultInv...)
			if c.TracedArg == nil {
				c.TracedArg, c.TracedRes, c.TracedRes2, c.TracedRes3 = t.TracedArg, t.TracedRes, t.TracedRes2, t.TracedRes3
			}
		}
		done[c.Key] = true
		return nil
	}
	for _, k := range sortedKeys(sf.Contracts) {
		if err := resolve(sf.Contracts[k], 0); err != nil {
			return err
		}
	}
	return nil
}

func isAnkoPkgPath(p string) bool { return p == ankoPath || strings.HasPrefix(p, ankoPath+"/") }

func pkgShortPath(path, name string) string {
	if path == ankoPath {
		return "main"
	}
	if strings.HasPrefix(path, ankoPath+"/cmd/") {
		return "cmd_" + sanitize(strings.TrimPrefix(path, ankoPath+"/cmd/"))
	}
	if path == ankoPath+"/ast/astutil" {
		return "astutil"
	}
	return name
}

func (sf *SpecFile) merge(sub *SpecFile, prefix string) error {
	for k, c := range sub.Contracts {
		key := prefix + k
		if _, dup := sf.Contracts[key]; dup {
			return fmt.Errorf("duplicate contract %s", key)
		}
		c.Key = key
		sf.Contracts[key] = c
	}
	for _, n := range sub.FunOrder {
		if _, dup := sf.Funs[n]; dup {
			return fmt.Errorf("duplicate spec fun %s", n)
		}
		sub.Funs[n].Pkg = strings.TrimSuffix(prefix, ".")
		sf.Funs[n] = sub.Funs[n]
		sf.FunOrder = append(sf.FunOrder, n)
	}
	sf.Ghosts = append(sf.Ghosts, sub.Ghosts...)
	for _, c := range sub.Axioms {
		c.Pkg = strings.TrimSuffix(prefix, ".")
		sf.Axioms = append(sf.Axioms, c)
	}
	for _, c := range sub.Lemmas {
		c.Pkg = strings.TrimSuffix(prefix, ".")
		sf.Lemmas = append(sf.Lemmas, c)
	}
	sf.Guarded = append(sf.Guarded, sub.Guarded...)
	sf.TableExceptions = append(sf.TableExceptions, sub.TableExceptions...)
	sf.OpTable = append(sf.OpTable, sub.OpTable...)
	for _, c := range sub.GlobalInvs {
		c.Pkg = strings.TrimSuffix(prefix, ".")
		sf.GlobalInvs = append(sf.GlobalInvs, c)
	}
	sf.Pragmas = append(sf.Pragmas, sub.Pragmas...)
	return nil
}

// typeID gives a stable small integer for a Go type (by its canonical string).
var funcIDs = map[string]int{}

// funcID: a stable small integer per function key (callee identity in activation traces).
func funcID(key string) int {
	typeIDMu.Lock()
	defer typeIDMu.Unlock()
	if id, ok := funcIDs[key]; ok {
		return id
	}
	id := len(funcIDs) + 1
	funcIDs[key] = id
	return id
}

var typeIDMu sync.Mutex

func (P *Prog) typeID(t types.Type) int {
	typeIDMu.Lock()
	defer typeIDMu.Unlock()
	s := types.TypeString(t, nil)
	if id, ok := P.typeIDs[s]; ok {
		return id
	}
	id := len(P.typeByID)
	P.typeIDs[s] = id
	P.typeByID = append(P.typeByID, t)
	return id
}

// resolveType resolves a type written in a contract ("*ast.IfStmt", "[]Expr", "int", "*Env") in the scope of pkg.
func (P *Prog) resolveType(text string, pkg *types.Package) (types.Type, error) {
	e, err := parser.ParseExpr(text)
	if err != nil {
		return nil, fmt.Errorf("type %q: %v", text, err)
	}
	return P.resolveTypeExpr(e, pkg)
}

func (P *Prog) resolveTypeExpr(e ast.Expr, pkg *types.Package) (types.Type, error) {
	switch e := e.(type) {
	case *ast.StarExpr:
		t, err := P.resolveTypeExpr(e.X, pkg)
		if err != nil {
			return nil, err
		}
		return types.NewPointer(t), nil
	case *ast.ArrayType:
		t, err := P.resolveTypeExpr(e.Elt, pkg)
		if err != nil {
			return nil, err
		}
		return types.NewSlice(t), nil
	case *ast.ParenExpr:
		return P.resolveTypeExpr(e.X, pkg)
	case *ast.InterfaceType:
		return types.NewInterfaceType(nil, nil), nil
	case *ast.StructType:
		if e.Fields == nil || len(e.Fields.List) == 0 {
			return types.NewStruct(nil, nil), nil
		}
		return nil, fmt.Errorf("struct types with fields are not supported in contracts")
	case *ast.ChanType:
		t, err := P.resolveTypeExpr(e.Value, pkg)
		if err != nil {
			return nil, err
		}
		dir := types.SendRecv
		if e.Dir == ast.RECV {
			dir = types.RecvOnly
		} else if e.Dir == ast.SEND {
			dir = types.SendOnly
		}
		return types.NewChan(dir, t), nil
	case *ast.SelectorExpr:
		id, ok := e.X.(*ast.Ident)
		if !ok {
			return nil, fmt.Errorf("bad qualified type")
		}
		p := P.ByName[id.Name]
		if p == nil {
			return nil, fmt.Errorf("unknown package %q", id.Name)
		}
		o := p.Scope().Lookup(e.Sel.Name)
		if tn, ok := o.(*types.TypeName); ok {
			return tn.Type(), nil
		}
		return nil, fmt.Errorf("unknown type %s.%s", id.Name, e.Sel.Name)
	case *ast.Ident:
		if pkg != nil {
			if o := pkg.Scope().Lookup(e.Name); o != nil {
				if tn, ok := o.(*types.TypeName); ok {
					return tn.Type(), nil
				}
			}
		}
		if o := types.Universe.Lookup(e.Name); o != nil {
			if tn, ok := o.(*types.TypeName); ok {
				return tn.Type(), nil
			}
		}
		return nil, fmt.Errorf("unknown type %q", e.Name)
	}
	return nil, fmt.Errorf("unsupported type expression %T", e)
}
