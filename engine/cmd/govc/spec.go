package main

import (
	"fmt"
	"os"
	"regexp"
	"strconv"
	"strings"
	"unicode"
)

// ---------------------------------------------------------------------------
// Spec expression AST

type SExpr interface{ sexpr() }

type (
	SIdent  struct{ Name string }
	SNum    struct{ Val string }
	SStrLit struct{ Val string }
	SBoolL  struct{ Val bool }
	SNil    struct{}
	SUnary  struct {
		Op string
		X  SExpr
	}
	SBinary struct {
		Op   string
		X, Y SExpr
	}
	SCall struct {
		Fun  string
		Args []SExpr
	}
	SSel struct {
		X    SExpr
		Name string
	}
	SIndex struct{ X, I SExpr }
	SQuant struct {
		Forall bool
		Vars   []SParam
		Body   SExpr
	}
)

type SParam struct{ Name, Type string }

func (SIdent) sexpr()  {}
func (SNum) sexpr()    {}
func (SStrLit) sexpr() {}
func (SBoolL) sexpr()  {}
func (SNil) sexpr()    {}
func (SUnary) sexpr()  {}
func (SBinary) sexpr() {}
func (SCall) sexpr()   {}
func (SSel) sexpr()    {}
func (SIndex) sexpr()  {}
func (SQuant) sexpr()  {}

// ---------------------------------------------------------------------------
// Lexer

type tok struct {
	kind string // id int str op eof
	val  string
}

func lexSpec(s string) ([]tok, error) {
	var out []tok
	i := 0
	for i < len(s) {
		c := s[i]
		switch {
		case c == ' ' || c == '\t':
			i++
		case c == '/' && i+1 < len(s) && s[i+1] == '/':
			i = len(s) // trailing comment
		case unicode.IsLetter(rune(c)) || c == '_' || c == '$':
			j := i + 1
			for j < len(s) && (unicode.IsLetter(rune(s[j])) || unicode.IsDigit(rune(s[j])) || s[j] == '_' || s[j] == '$' || s[j] == '#') {
				j++
			}
			out = append(out, tok{"id", s[i:j]})
			i = j
		case c >= '0' && c <= '9':
			j := i + 1
			for j < len(s) && (s[j] >= '0' && s[j] <= '9' || s[j] == 'x' || s[j] >= 'a' && s[j] <= 'f' || s[j] >= 'A' && s[j] <= 'F') {
				j++
			}
			out = append(out, tok{"int", s[i:j]})
			i = j
		case c == '"':
			j := i + 1
			for j < len(s) && s[j] != '"' {
				if s[j] == '\\' {
					j++
				}
				j++
			}
			if j >= len(s) {
				return nil, fmt.Errorf("unterminated string in %q", s)
			}
			v, err := strconv.Unquote(s[i : j+1])
			if err != nil {
				return nil, err
			}
			out = append(out, tok{"str", v})
			i = j + 1
		case c == '\'':
			j := i + 1
			for j < len(s) && s[j] != '\'' {
				if s[j] == '\\' {
					j++
				}
				j++
			}
			v, _, _, err := strconv.UnquoteChar(s[i+1:j], '\'')
			if err != nil {
				return nil, err
			}
			out = append(out, tok{"int", strconv.Itoa(int(v))})
			i = j + 1
		default:
			ops := []string{"<==>", "==>", "::", "==", "!=", "<=", ">=", "&&", "||", "<", ">", "+", "-", "*", "/", "%", "!", "(", ")", "[", "]", ",", ".", ":", "@"}
			found := false
			for _, op := range ops {
				if strings.HasPrefix(s[i:], op) {
					out = append(out, tok{"op", op})
					i += len(op)
					found = true
					break
				}
			}
			if !found {
				return nil, fmt.Errorf("bad character %q in spec %q", c, s)
			}
		}
	}
	out = append(out, tok{"eof", ""})
	return out, nil
}

type sparser struct {
	toks []tok
	p    int
	src  string
}

func (p *sparser) peek() tok { return p.toks[p.p] }
func (p *sparser) next() tok { t := p.toks[p.p]; p.p++; return t }
func (p *sparser) isOp(v string) bool {
	t := p.peek()
	return t.kind == "op" && t.val == v
}
func (p *sparser) expect(v string) {
	t := p.next()
	if t.kind != "op" || t.val != v {
		panic(fmt.Sprintf("spec parse: expected %q got %q in %q", v, t.val, p.src))
	}
}

func parseSpecExpr(s string) (e SExpr, err error) {
	toks, err := lexSpec(s)
	if err != nil {
		return nil, err
	}
	p := &sparser{toks: toks, src: s}
	defer func() {
		if r := recover(); r != nil {
			err = fmt.Errorf("%v", r)
		}
	}()
	e = p.parseIff()
	if p.peek().kind != "eof" {
		return nil, fmt.Errorf("spec parse: trailing %q in %q", p.peek().val, s)
	}
	return e, nil
}

func (p *sparser) parseIff() SExpr {
	x := p.parseImp()
	for p.isOp("<==>") {
		p.next()
		y := p.parseImp()
		x = SBinary{"<==>", x, y}
	}
	return x
}
func (p *sparser) parseImp() SExpr {
	x := p.parseOr()
	if p.isOp("==>") {
		p.next()
		y := p.parseImp()
		return SBinary{"==>", x, y}
	}
	return x
}
func (p *sparser) parseOr() SExpr {
	x := p.parseAnd()
	for p.isOp("||") {
		p.next()
		x = SBinary{"||", x, p.parseAnd()}
	}
	return x
}
func (p *sparser) parseAnd() SExpr {
	x := p.parseCmp()
	for p.isOp("&&") {
		p.next()
		x = SBinary{"&&", x, p.parseCmp()}
	}
	return x
}
func (p *sparser) parseCmp() SExpr {
	x := p.parseAdd()
	for {
		t := p.peek()
		if t.kind == "op" && (t.val == "==" || t.val == "!=" || t.val == "<" || t.val == "<=" || t.val == ">" || t.val == ">=") {
			p.next()
			y := p.parseAdd()
			x = SBinary{t.val, x, y}
			// chained comparison a <= b < c  ==>  a<=b && b<c
			for {
				t2 := p.peek()
				if t2.kind == "op" && (t2.val == "<" || t2.val == "<=" || t2.val == ">" || t2.val == ">=") {
					p.next()
					z := p.parseAdd()
					x = SBinary{"&&", x, SBinary{t2.val, y, z}}
					y = z
					continue
				}
				break
			}
			continue
		}
		return x
	}
}
func (p *sparser) parseAdd() SExpr {
	x := p.parseMul()
	for p.isOp("+") || p.isOp("-") {
		op := p.next().val
		x = SBinary{op, x, p.parseMul()}
	}
	return x
}
func (p *sparser) parseMul() SExpr {
	x := p.parseUnary()
	for p.isOp("*") || p.isOp("/") || p.isOp("%") {
		op := p.next().val
		x = SBinary{op, x, p.parseUnary()}
	}
	return x
}
func (p *sparser) parseUnary() SExpr {
	if p.isOp("!") {
		p.next()
		return SUnary{"!", p.parseUnary()}
	}
	if p.isOp("-") {
		p.next()
		return SUnary{"-", p.parseUnary()}
	}
	return p.parsePostfix()
}
func (p *sparser) parsePostfix() SExpr {
	x := p.parsePrimary()
	for {
		switch {
		case p.isOp("."):
			p.next()
			t := p.next()
			if t.kind != "id" && t.kind != "int" {
				panic("spec parse: selector expected in " + p.src)
			}
			x = SSel{x, t.val}
		case p.isOp("["):
			p.next()
			i := p.parseIff()
			p.expect("]")
			x = SIndex{x, i}
		default:
			return x
		}
	}
}
func (p *sparser) parsePrimary() SExpr {
	t := p.next()
	switch t.kind {
	case "int":
		return SNum{t.val}
	case "str":
		return SStrLit{t.val}
	case "id":
		switch t.val {
		case "true":
			return SBoolL{true}
		case "false":
			return SBoolL{false}
		case "nil":
			return SNil{}
		case "forall", "exists":
			var vars []SParam
			for {
				n := p.next()
				if n.kind != "id" {
					panic("spec parse: quantifier variable expected in " + p.src)
				}
				ty := p.parseTypeText()
				vars = append(vars, SParam{n.val, ty})
				if p.isOp(",") {
					p.next()
					continue
				}
				break
			}
			p.expect("::")
			body := p.parseIff()
			return SQuant{t.val == "forall", vars, body}
		}
		if p.isOp("(") {
			p.next()
			var args []SExpr
			if !p.isOp(")") {
				for {
					args = append(args, p.parseIff())
					if p.isOp(",") {
						p.next()
						continue
					}
					break
				}
			}
			p.expect(")")
			return SCall{t.val, args}
		}
		return SIdent{t.val}
	case "op":
		if t.val == "(" {
			e := p.parseIff()
			p.expect(")")
			return e
		}
	}
	panic(fmt.Sprintf("spec parse: unexpected %q in %q", t.val, p.src))
}

// parseTypeText reads a type as raw text: [*][[]]id[.id]
// specCalls collects the names of functions applied in a spec expression.
func specCalls(x SExpr, out map[string]bool) {
	switch x := x.(type) {
	case SUnary:
		specCalls(x.X, out)
	case SBinary:
		specCalls(x.X, out)
		specCalls(x.Y, out)
	case SCall:
		out[x.Fun] = true
		for _, a := range x.Args {
			specCalls(a, out)
		}
	case SSel:
		specCalls(x.X, out)
	case SIndex:
		specCalls(x.X, out)
		specCalls(x.I, out)
	case SQuant:
		specCalls(x.Body, out)
	}
}

func (p *sparser) parseTypeText() string {
	var b strings.Builder
	for p.isOp("*") || p.isOp("[") {
		if p.isOp("*") {
			p.next()
			b.WriteString("*")
		} else {
			p.next()
			p.expect("]")
			b.WriteString("[]")
		}
	}
	t := p.next()
	if t.kind != "id" {
		panic("spec parse: type expected in " + p.src)
	}
	b.WriteString(t.val)
	if p.isOp(".") {
		p.next()
		b.WriteString(".")
		b.WriteString(p.next().val)
	}
	return b.String()
}

// ---------------------------------------------------------------------------
// Contract files

type Clause struct {
	Props  []string
	Label  string
	Text   string
	Expr   SExpr
	Free   bool // assumed, not checked (only for trusted specs)
	Pkg    string
	Induct string // lemma: variable to do induction on
}

type LoopSpec struct {
	Invariants []Clause
	Decreases  []Clause
	Progress   []Clause // ghost counters that strictly increase on every iteration
}

type SpecFun struct {
	Name   string
	Params []SParam
	Ret    string
	Body   SExpr // nil = uninterpreted
	Text   string
	Pkg    string
	Reads  []string // state components passed implicitly (heap-dependent uninterpreted function)
}

type GhostVar struct {
	Name  string
	Type  string
	Local bool // not changed by any callee (a counter of the activation's own actions)
}

type Contract struct {
	Key            string   // function key
	ParamNames     []string // explicit parameter names (external functions); nil = from source
	Props          []string
	Requires       []Clause
	Ensures        []Clause
	EnsuresOnPanic []Clause
	PanicsWhen     []Clause
	Modifies       []string // raw paths
	ModifiesAll    bool
	Loops          map[int]*LoopSpec
	Arith          string // "", "wrap"
	Trusted        bool
	MayPanic       bool
	Inline         bool
	NoReturn       bool
	Pure           bool
	File           string
	Line           int
	Pragmas        []string
	TracedArg      SExpr    // traced callees: the key argument recorded in the caller's activation trace
	TracedRes      SExpr    // ... and the result recorded after the call
	TracedRes2     SExpr    // ... and a second result (e.g. the value produced)
	TracedRes3     SExpr    // ... and a third one
	TracedOptIn    bool     // traced only in activations whose contract lists the callee in a `traces` clause
	Traces         []string // opt-in traced callees (key suffixes) recorded in this function's trace
	AutoProps      []string // properties owning the generated safety obligations of this function (default: by package)
	DefaultInv     []Clause // invariants for every loop that has no explicit loop clause
	PanicsOnlyWhen []Clause // may_panic functions: every explicit panic must be justified by one of these conditions
	Captures       []Clause // closures: facts about the captured variables (checked where the closure is created)
	Likes          []string // templates: contracts whose clauses are copied into this one
	CallSites      []CallSiteClause
	Uses           []SCall // lemma / axiom instances to assume
	Critical       map[int][]Clause
}

// CallSiteClause: an assertion attached to the k-th call of a callee inside the function under contract.
type CallSiteClause struct {
	Callee  string // suffix of the callee key (e.g. "reflect.Select")
	Ordinal int    // -1: every call
	Text    string // non-empty: only calls one of whose arguments is built from a string constant containing this text
	Clause  Clause
}

type SpecFile struct {
	Contracts       map[string]*Contract
	Funs            map[string]*SpecFun
	FunOrder        []string
	Ghosts          []GhostVar
	Axioms          []Clause
	Lemmas          []Clause
	TypeInvs        map[string][]Clause // keyed by type text
	Guarded         []string
	TableExceptions []string
	OpTable         []OpRow
	GlobalInvs      []Clause
	Pragmas         []string // every "trusted"/"assume"-like pragma seen (for the evidence)
}

// OpRow: one row of the operator table of property C03 (pragma `optable LEVEL ASSOC: TOKENS`).
type OpRow struct {
	Level  int
	Assoc  string // left | right | unary | postfix
	Tokens []string
}

func newSpecFile() *SpecFile {
	return &SpecFile{Contracts: map[string]*Contract{}, Funs: map[string]*SpecFun{}, TypeInvs: map[string][]Clause{}}
}

var (
	reSpecLine = regexp.MustCompile(`^\s*//\s?@\s?(.*)$`)
	reTags     = regexp.MustCompile(`^\[([A-Z0-9 ,]+)\]\s*`)
	reLabel    = regexp.MustCompile(`^([A-Za-z][\w\-]*):\s+`)
	reFunHdr   = regexp.MustCompile(`^(\S.*?)(?:\s+params\((.*)\))?$`)
	reInduct   = regexp.MustCompile(`^((?:\[[A-Z0-9 ,]+\]\s*)?[A-Za-z][\w\-]*)\s+induction\s+(\w+)(:\s+.*)$`)
	reSpecFun  = regexp.MustCompile(`^(\w+)\((.*?)\)\s*([\w\.\*\[\]]+)(?:\s+reads\s+([^=]*?))?(?:\s*=\s*(.*))?$`)
)

func parseClause(rest string, defProps []string) (Clause, error) {
	c := Clause{Props: defProps}
	if m := reTags.FindStringSubmatch(rest); m != nil {
		c.Props = strings.FieldsFunc(m[1], func(r rune) bool { return r == ' ' || r == ',' })
		rest = rest[len(m[0]):]
	}
	if m := reLabel.FindStringSubmatch(rest); m != nil {
		c.Label = strings.ReplaceAll(m[1], "-", "_")
		rest = rest[len(m[0]):]
	}
	c.Text = strings.TrimSpace(rest)
	e, err := parseSpecExpr(c.Text)
	if err != nil {
		return c, err
	}
	c.Expr = e
	return c, nil
}

func parseParams(s string) []SParam {
	var out []SParam
	s = strings.TrimSpace(s)
	if s == "" {
		return nil
	}
	for _, part := range strings.Split(s, ",") {
		f := strings.Fields(part)
		if len(f) == 1 {
			out = append(out, SParam{f[0], "int"})
		} else {
			out = append(out, SParam{f[0], f[1]})
		}
	}
	return out
}

// loadSpecFile parses one contract file (Go comment file or .spec file) into sf.
func loadSpecFile(path string, sf *SpecFile) error {
	data, err := os.ReadFile(path)
	if err != nil {
		return err
	}
	// join continuation lines:  //@ | more text
	var lines []string
	var lineNos []int
	for n, raw := range strings.Split(string(data), "\n") {
		var body string
		if strings.HasSuffix(path, ".spec") {
			t := strings.TrimSpace(raw)
			if t == "" || strings.HasPrefix(t, "#") {
				continue
			}
			body = t
		} else {
			m := reSpecLine.FindStringSubmatch(raw)
			if m == nil {
				continue
			}
			body = strings.TrimSpace(m[1])
		}
		if strings.HasPrefix(body, "|") && len(lines) > 0 {
			lines[len(lines)-1] += " " + strings.TrimSpace(body[1:])
			continue
		}
		lines = append(lines, body)
		lineNos = append(lineNos, n+1)
	}
	var cur *Contract
	for i, ln := range lines {
		fail := func(err error) error { return fmt.Errorf("%s:%d: %v", path, lineNos[i], err) }
		if ln == "" {
			continue
		}
		kw := ln
		rest := ""
		if j := strings.IndexAny(ln, " \t["); j >= 0 {
			kw = ln[:j]
			rest = strings.TrimSpace(ln[j:])
		}
		switch kw {
		case "func":
			m := reFunHdr.FindStringSubmatch(rest)
			key := strings.TrimSpace(m[1])
			cur = &Contract{Key: key, Loops: map[int]*LoopSpec{}, File: path, Line: lineNos[i]}
			if m[2] != "" {
				for _, p := range strings.Split(m[2], ",") {
					cur.ParamNames = append(cur.ParamNames, strings.TrimSpace(p))
				}
			}
			if old, dup := sf.Contracts[key]; dup {
				return fail(fmt.Errorf("duplicate contract for %s (first at %s:%d)", key, old.File, old.Line))
			}
			sf.Contracts[key] = cur
		case "autoprops":
			if cur == nil {
				return fail(fmt.Errorf("autoprops outside func"))
			}
			cur.AutoProps = strings.Fields(rest)
		case "props":
			if cur == nil {
				return fail(fmt.Errorf("props outside func"))
			}
			cur.Props = strings.Fields(rest)
		case "traces":
			// traces CALLEE ...: this function's activation trace also records its calls to these opt-in traced callees
			if cur == nil {
				return fail(fmt.Errorf("traces outside func"))
			}
			cur.Traces = append(cur.Traces, fieldsQuoted(rest)...)
		case "traced", "traced_optin":
			// traced ARGEXPR [-> RESEXPR]; traced_optin: only in the traces of callers that name the callee in a `traces` clause
			if cur == nil {
				return fail(fmt.Errorf("traced outside func"))
			}
			cur.TracedOptIn = kw == "traced_optin"
			parts := strings.SplitN(rest, "->", 2)
			a, err := parseSpecExpr(strings.TrimSpace(parts[0]))
			if err != nil {
				return fail(err)
			}
			cur.TracedArg = a
			if len(parts) == 2 {
				rs := strings.SplitN(parts[1], ";", 3)
				r, err := parseSpecExpr(strings.TrimSpace(rs[0]))
				if err != nil {
					return fail(err)
				}
				cur.TracedRes = r
				if len(rs) >= 2 {
					r2, err := parseSpecExpr(strings.TrimSpace(rs[1]))
					if err != nil {
						return fail(err)
					}
					cur.TracedRes2 = r2
				}
				if len(rs) == 3 {
					r3, err := parseSpecExpr(strings.TrimSpace(rs[2]))
					if err != nil {
						return fail(err)
					}
					cur.TracedRes3 = r3
				}
			}
		case "loops":
			if cur == nil {
				return fail(fmt.Errorf("loops outside func"))
			}
			if !strings.HasPrefix(rest, "invariant ") {
				return fail(fmt.Errorf("loops invariant EXPR expected"))
			}
			c, err := parseClause(strings.TrimSpace(rest[len("invariant "):]), cur.Props)
			if err != nil {
				return fail(err)
			}
			cur.DefaultInv = append(cur.DefaultInv, c)
		case "panics_only_when":
			if cur == nil {
				return fail(fmt.Errorf("panics_only_when outside func"))
			}
			c, err := parseClause(rest, cur.Props)
			if err != nil {
				return fail(err)
			}
			cur.PanicsOnlyWhen = append(cur.PanicsOnlyWhen, c)
		case "captures":
			if cur == nil {
				return fail(fmt.Errorf("captures outside func"))
			}
			c, err := parseClause(rest, cur.Props)
			if err != nil {
				return fail(err)
			}
			cur.Captures = append(cur.Captures, c)
		case "requires", "ensures", "ensures_on_panic", "panics_when", "free_ensures":
			if cur == nil {
				return fail(fmt.Errorf("%s outside func", kw))
			}
			c, err := parseClause(rest, cur.Props)
			if err != nil {
				return fail(err)
			}
			switch kw {
			case "requires":
				cur.Requires = append(cur.Requires, c)
			case "ensures":
				cur.Ensures = append(cur.Ensures, c)
			case "free_ensures":
				c.Free = true
				cur.Ensures = append(cur.Ensures, c)
			case "ensures_on_panic":
				cur.EnsuresOnPanic = append(cur.EnsuresOnPanic, c)
			case "panics_when":
				cur.PanicsWhen = append(cur.PanicsWhen, c)
			}
		case "modifies":
			if cur == nil {
				return fail(fmt.Errorf("modifies outside func"))
			}
			for _, p := range strings.Split(rest, ",") {
				p = strings.TrimSpace(p)
				if p == "*" {
					cur.ModifiesAll = true
				} else if p != "" {
					cur.Modifies = append(cur.Modifies, p)
				}
			}
		case "loop":
			if cur == nil {
				return fail(fmt.Errorf("loop outside func"))
			}
			f := strings.Fields(rest)
			if len(f) < 3 {
				return fail(fmt.Errorf("bad loop clause"))
			}
			k, err := strconv.Atoi(f[0])
			if err != nil {
				return fail(err)
			}
			body := strings.TrimSpace(strings.TrimPrefix(strings.TrimSpace(rest[len(f[0]):]), f[1]))
			c, err := parseClause(body, cur.Props)
			if err != nil {
				return fail(err)
			}
			ls := cur.Loops[k]
			if ls == nil {
				ls = &LoopSpec{}
				cur.Loops[k] = ls
			}
			switch f[1] {
			case "invariant":
				ls.Invariants = append(ls.Invariants, c)
			case "decreases":
				ls.Decreases = append(ls.Decreases, c)
			case "progress":
				ls.Progress = append(ls.Progress, c)
			default:
				return fail(fmt.Errorf("unknown loop clause %q", f[1]))
			}
		case "like":
			if cur == nil {
				return fail(fmt.Errorf("like outside func"))
			}
			cur.Likes = append(cur.Likes, rest)
		case "callsite":
			// callsite CALLEE K|* [tags] label: expr
			if cur == nil {
				return fail(fmt.Errorf("callsite outside func"))
			}
			f := strings.Fields(rest)
			if strings.HasPrefix(strings.TrimSpace(rest), "\"") {
				// "quoted callee key" (function-type keys contain spaces)
				fq := fieldsQuoted(rest)
				if len(fq) >= 2 {
					f = append([]string{fq[0], fq[1]}, "x")
					rest = strings.TrimSpace(rest)
					rest = "Q " + strings.TrimSpace(rest[len(fq[0])+2:])
					f[0] = fq[0]
					f = []string{fq[0], fq[1], "x"}
				}
			}
			if len(f) < 3 {
				return fail(fmt.Errorf("callsite CALLEE ORDINAL expr"))
			}
			ord := -1
			text := ""
			if strings.HasPrefix(f[1], "~") {
				// ~some_words: the call whose arguments mention a string constant containing "some words"
				text = strings.ReplaceAll(f[1][1:], "_", " ")
			} else if f[1] != "*" {
				k, err := strconv.Atoi(f[1])
				if err != nil {
					return fail(err)
				}
				ord = k
			}
			first := f[0]
			if strings.HasPrefix(rest, "Q ") {
				first = "Q"
			}
			body := strings.TrimSpace(strings.TrimPrefix(strings.TrimSpace(strings.TrimPrefix(rest, first)), f[1]))
			c, err := parseClause(body, cur.Props)
			if err != nil {
				return fail(err)
			}
			cur.CallSites = append(cur.CallSites, CallSiteClause{Callee: f[0], Ordinal: ord, Text: text, Clause: c})
		case "spawnsite":
			// spawnsite [tags] label: expr   -- checked at every go statement of this function
			if cur == nil {
				return fail(fmt.Errorf("spawnsite outside func"))
			}
			c, err := parseClause(rest, cur.Props)
			if err != nil {
				return fail(err)
			}
			cur.CallSites = append(cur.CallSites, CallSiteClause{Callee: "go:", Ordinal: -1, Clause: c})
		case "closure":
			// closure NAME [tags] label: expr   -- checked where this function creates the closure NAME (e.g. funcExpr$1);
			// the closure's free variables are in scope under their names, next to the creator's own state
			if cur == nil {
				return fail(fmt.Errorf("closure outside func"))
			}
			f := strings.Fields(rest)
			if len(f) < 2 {
				return fail(fmt.Errorf("closure NAME expr"))
			}
			c, err := parseClause(strings.TrimSpace(strings.TrimPrefix(rest, f[0])), cur.Props)
			if err != nil {
				return fail(err)
			}
			cur.CallSites = append(cur.CallSites, CallSiteClause{Callee: "closure:" + f[0], Ordinal: -1, Clause: c})
		case "critical":
			if cur == nil {
				return fail(fmt.Errorf("critical outside func"))
			}
			f := strings.Fields(rest)
			k, err := strconv.Atoi(f[0])
			if err != nil {
				return fail(err)
			}
			c, err := parseClause(strings.TrimSpace(rest[len(f[0]):]), []string{"C13"})
			if err != nil {
				return fail(err)
			}
			if cur.Critical == nil {
				cur.Critical = map[int][]Clause{}
			}
			cur.Critical[k] = append(cur.Critical[k], c)
		case "use":
			if cur == nil {
				return fail(fmt.Errorf("use outside func"))
			}
			if k := strings.Index(rest, "("); k > 0 {
				rest = strings.ReplaceAll(rest[:k], "-", "_") + rest[k:]
			}
			x, err := parseSpecExpr(rest)
			if err != nil {
				return fail(err)
			}
			c, ok := x.(SCall)
			if !ok {
				return fail(fmt.Errorf("use NAME(args) expected"))
			}
			cur.Uses = append(cur.Uses, c)
		case "arith":
			cur.Arith = rest
		case "trusted", "may_panic", "inline", "noreturn", "pure":
			if cur == nil {
				return fail(fmt.Errorf("%s outside func", kw))
			}
			switch kw {
			case "trusted":
				cur.Trusted = true
				sf.Pragmas = append(sf.Pragmas, "trusted: "+cur.Key)
			case "may_panic":
				cur.MayPanic = true
				sf.Pragmas = append(sf.Pragmas, "may_panic: "+cur.Key)
			case "inline":
				cur.Inline = true
			case "noreturn":
				cur.NoReturn = true
			case "pure":
				cur.Pure = true
			}
			cur.Pragmas = append(cur.Pragmas, kw)
		case "ghost":
			f := strings.Fields(rest)
			if (len(f) != 3 && len(f) != 4) || f[0] != "var" {
				return fail(fmt.Errorf("ghost var NAME TYPE [local] expected"))
			}
			sf.Ghosts = append(sf.Ghosts, GhostVar{Name: f[1], Type: f[2], Local: len(f) == 4 && f[3] == "local"})
			cur = nil
		case "spec":
			if !strings.HasPrefix(rest, "fun ") {
				return fail(fmt.Errorf("spec fun expected"))
			}
			m := reSpecFun.FindStringSubmatch(strings.TrimSpace(rest[4:]))
			if m == nil {
				return fail(fmt.Errorf("bad spec fun: %s", rest))
			}
			fn := &SpecFun{Name: m[1], Params: parseParams(m[2]), Ret: m[3], Text: rest}
			if m[4] != "" {
				for _, r := range strings.Split(m[4], ",") {
					fn.Reads = append(fn.Reads, strings.TrimSpace(r))
				}
			}
			if m[5] != "" {
				e, err := parseSpecExpr(m[5])
				if err != nil {
					return fail(err)
				}
				fn.Body = e
			}
			if _, dup := sf.Funs[fn.Name]; dup {
				return fail(fmt.Errorf("duplicate spec fun %s", fn.Name))
			}
			sf.Funs[fn.Name] = fn
			sf.FunOrder = append(sf.FunOrder, fn.Name)
			cur = nil
		case "axiom", "lemma":
			induct := ""
			if m := reInduct.FindStringSubmatch(rest); m != nil {
				induct = m[2]
				rest = m[1] + m[3]
			}
			c, err := parseClause(rest, nil)
			c.Induct = induct
			if err != nil {
				return fail(err)
			}
			if kw == "axiom" {
				sf.Axioms = append(sf.Axioms, c)
				sf.Pragmas = append(sf.Pragmas, "axiom: "+c.Label+" "+c.Text)
			} else {
				sf.Lemmas = append(sf.Lemmas, c)
			}
			cur = nil
		case "table_exception":
			f := strings.Fields(rest)
			if len(f) < 1 {
				return fail(fmt.Errorf("table_exception TABLE.KEY reason"))
			}
			sf.TableExceptions = append(sf.TableExceptions, f[0])
			sf.Pragmas = append(sf.Pragmas, "table_exception: "+rest)
			cur = nil
		case "optable":
			// optable LEVEL left|right|unary|postfix: TOKEN TOKEN ...
			hd, tl, ok := strings.Cut(rest, ": ")
			f := strings.Fields(hd)
			if !ok || len(f) != 2 {
				return fail(fmt.Errorf("optable LEVEL left|right|unary|postfix: TOKENS"))
			}
			lv, err := strconv.Atoi(f[0])
			if err != nil || (f[1] != "left" && f[1] != "right" && f[1] != "unary" && f[1] != "postfix") {
				return fail(fmt.Errorf("optable LEVEL left|right|unary|postfix: TOKENS"))
			}
			sf.OpTable = append(sf.OpTable, OpRow{lv, f[1], strings.Fields(tl)})
			cur = nil
		case "global_inv":
			c, err := parseClause(rest, nil)
			if err != nil {
				return fail(err)
			}
			sf.GlobalInvs = append(sf.GlobalInvs, c)
			cur = nil
		case "guarded_by":
			sf.Guarded = append(sf.Guarded, rest)
			cur = nil
		case "package", "note", "--":
			// free text
		default:
			return fail(fmt.Errorf("unknown contract keyword %q", kw))
		}
	}
	return nil
}

// fieldsQuoted: strings.Fields, except that a "double quoted" segment is one field (function-type keys contain spaces).
func fieldsQuoted(s string) []string {
	var out []string
	for {
		s = strings.TrimSpace(s)
		if s == "" {
			return out
		}
		if s[0] == '"' {
			if j := strings.Index(s[1:], "\""); j >= 0 {
				out = append(out, s[1:1+j])
				s = s[j+2:]
				continue
			}
		}
		j := strings.IndexAny(s, " \t")
		if j < 0 {
			return append(out, s)
		}
		out = append(out, s[:j])
		s = s[j:]
	}
}
