package main

import (
	"fmt"
	"go/types"
)

// lemmaEnc builds the proof obligations of a lemma of the contract files: the lemma is proved from the
// axioms (asserted as quantified formulas in this query only); "induction k" splits it into base and step.
func lemmaEnc(P *Prog, lm Clause) *Enc {
	e := &Enc{P: P, key: "lemma." + lm.Pkg + "." + lm.Label, decls: newDecls(), compSort: map[string]string{}, strConsts: map[string]Term{},
		tidsUsed: map[int]bool{}, ifacesUsed: map[string]*types.Interface{}, oblCount: map[string]int{},
		paramVals: map[string]Val{}, paramTypes: map[string]types.Type{}, curBlk: -1}
	e.pkg = P.ByName[lm.Pkg]
	e.decls.add("const:hwm0", "(declare-const hwm0 Int)")
	st := &State{reach: TTrue, heaps: map[string]Term{}, hwm: Term{"hwm0", SInt}}
	e.pre = st
	mk := func() *SCtx {
		return &SCtx{e: e, st: st, old: nil, vars: map[string]Val{}, vtypes: map[string]types.Type{}, pkg: e.pkg}
	}
	// axioms of the same package, and lemmas stated earlier in the file, may be used
	for _, ax := range P.Spec.Axioms {
		if ax.Pkg != lm.Pkg {
			continue
		}
		t, err := mk().evalBool(ax.Expr)
		if err != nil {
			e.unsupported = "axiom " + ax.Label + ": " + err.Error()
			return e
		}
		e.assert(t)
	}
	for _, l2 := range P.Spec.Lemmas {
		if l2.Label == lm.Label {
			break
		}
		if l2.Pkg != lm.Pkg {
			continue
		}
		t, err := mk().evalBool(l2.Expr)
		if err != nil {
			e.unsupported = "lemma " + l2.Label + ": " + err.Error()
			return e
		}
		e.assert(t)
	}
	props := lm.Props
	q, isQ := lm.Expr.(SQuant)
	if lm.Induct == "" || !isQ {
		t, err := mk().evalBool(lm.Expr)
		if err != nil {
			e.unsupported = err.Error()
			return e
		}
		e.oblige("lemma", "statement", props, TTrue, t, lm.Text, 0)
		return e
	}
	sc := mk()
	var kname string
	for _, v := range q.Vars {
		srt, gt := sortOfSpecType(P, v.Type, e.pkg)
		if v.Name == lm.Induct {
			kname = v.Name
			continue
		}
		sc.vars[v.Name] = tv(e.fresh("sk_"+v.Name, srt))
		sc.vtypes[v.Name] = gt
	}
	if kname == "" {
		e.unsupported = "induction variable " + lm.Induct + " is not quantified by the lemma"
		return e
	}
	at := func(k Term) (Term, error) {
		n := *sc
		n.vars = map[string]Val{}
		for a, b := range sc.vars {
			n.vars[a] = b
		}
		n.vars[kname] = tv(k)
		return n.evalBool(q.Body)
	}
	base, err := at(I(0))
	if err != nil {
		e.unsupported = err.Error()
		return e
	}
	e.oblige("lemma", "base", props, TTrue, base, fmt.Sprintf("%s [%s := 0]", lm.Text, kname), 0)
	// drop the assumption that oblige adds for the base case: it is about k=0 only and harmless
	K := e.fresh("sk_"+kname, SInt)
	e.assert(Ge(K, I(0)))
	ih, err := at(K)
	if err != nil {
		e.unsupported = err.Error()
		return e
	}
	e.assert(ih)
	step, err := at(Add(K, I(1)))
	if err != nil {
		e.unsupported = err.Error()
		return e
	}
	e.oblige("lemma", "step", props, TTrue, step, fmt.Sprintf("%s [%s := %s+1, assuming it for %s >= 0]", lm.Text, kname, kname, kname), 0)
	return e
}
