package main

import (
	"fmt"
	"go/constant"
	"go/types"
	"strings"

	"golang.org/x/tools/go/ssa"
)

// calleeContract finds the contract (if any) and the key of a call's target.
func (e *Enc) calleeContract(c *ssa.CallCommon) (*Contract, string) {
	key := e.calleeKey(c)
	if key == "" {
		return nil, ""
	}
	return e.P.Spec.Contracts[key], key
}

func (e *Enc) calleeKey(c *ssa.CallCommon) string {
	if c.IsInvoke() {
		return "(" + typeName(c.Value.Type()) + ")." + c.Method.Name()
	}
	if f := c.StaticCallee(); f != nil {
		if f.Synthetic != "" && strings.Contains(f.Synthetic, "wrapper") {
			// promoted-method wrapper: use the wrapped method's key
		}
		return funcKey(f)
	}
	// dynamic function value
	t := c.Value.Type()
	if n, ok := t.(*types.Named); ok {
		return "functype:" + typeName(n)
	}
	return "func:" + types.TypeString(t, func(p *types.Package) string { return p.Name() })
}

func calleeShort(key string) string {
	if i := strings.LastIndex(key, "."); i >= 0 && i+1 < len(key) {
		return key[i+1:]
	}
	return key
}

func (e *Enc) call(st *State, c *ssa.CallCommon, ins ssa.Instruction, deferred bool) Val {
	if b, ok := c.Value.(*ssa.Builtin); ok {
		return e.builtin(st, b, c, ins)
	}
	ap := e.autoProps()
	var args []Val
	var argTypes []types.Type
	if c.IsInvoke() {
		recv := e.val(st, c.Value)
		e.oblige("nil", "invoke."+c.Method.Name(), ap, st.reach, Not(Eq(recv.T, I(0))), "method call on nil interface", ins.Pos())
		args = append(args, recv)
		argTypes = append(argTypes, c.Value.Type())
		if c.Method.Name() == "SetPosition" && e.pkg != nil && pkgShort(e.pkg) != "parser" && pkgShort(e.pkg) != "ast" {
			e.declIface()
			e.oblige("frame", "ast.SetPosition", e.frameProps(), st.reach, Ge(e.root(app(SInt, "ival", recv.T)), e.pre.hwm), "SetPosition on an AST node that this activation did not allocate", ins.Pos())
		}
	} else if c.StaticCallee() == nil {
		fv := e.val(st, c.Value)
		e.oblige("nil", "funcvalue", ap, st.reach, Not(Eq(fv.T, I(0))), "call of nil function", ins.Pos())
	}
	for _, a := range c.Args {
		v := e.val(st, a)
		if v.A != nil {
			v = tv(e.ptrTerm(st, v))
		}
		args = append(args, v)
		argTypes = append(argTypes, a.Type())
	}
	ct, key := e.calleeContract(c)
	e.callSiteClauses(st, c, key, args, argTypes, ins)
	if op := lockOp(key); op != "" {
		e.lockCall(st, op, c, ins)
		return Val{}
	}
	sig := c.Signature()
	var resTypes []types.Type
	for i := 0; i < sig.Results().Len(); i++ {
		resTypes = append(resTypes, sig.Results().At(i).Type())
	}
	if ct == nil {
		return e.callNoContract(st, c, key, args, resTypes, ins)
	}
	return e.applyContract(st, ct, c, key, args, argTypes, sig, ins)
}

func (e *Enc) freshResults(st *State, prefix string, resTypes []types.Type) Val {
	var rs []Val
	for _, t := range resTypes {
		v := e.fresh(prefix, sortOf(t))
		e.assume(st.reach, e.typeAssume(v, t, st.hwm))
		rs = append(rs, tv(v))
	}
	switch len(rs) {
	case 0:
		return Val{}
	case 1:
		return rs[0]
	}
	return Val{Tuple: rs}
}

func (e *Enc) callNoContract(st *State, c *ssa.CallCommon, key string, args []Val, resTypes []types.Type, ins ssa.Instruction) Val {
	internal := e.isInternalKey(key)
	dynamic := c.IsInvoke() || c.StaticCallee() == nil
	e.traceCallHook(st, c, key, args, nil)
	if internal || dynamic {
		if internal {
			e.noteAssumption("no contract for internal callee " + key + ": everything havoced")
		} else {
			e.noteAssumption("no contract for dynamic call " + key + ": everything havoced")
		}
		ms := newModSet()
		ms.all = true
		e.havoc(st, ms, "c")
		e.assumeGlobalInvs(st)
		r := e.freshResults(st, "r_"+calleeShort(key), resTypes)
		e.traceAfterHook(st, c, key, r)
		return r
	}
	// external function without a trusted entry: pure function of its arguments
	e.noteAssumption("default-pure external: " + key)
	var rs []Val
	for i, t := range resTypes {
		var as []string
		var ts []Term
		for _, a := range args {
			if len(a.Tuple) > 0 {
				continue
			}
			as = append(as, a.T.Sort)
			ts = append(ts, a.T)
		}
		f := fmt.Sprintf("ext_%s_%d", sanitize(key), i)
		e.decls.fun(f, as, sortOf(t))
		v := e.def("r_"+calleeShort(key), app(sortOf(t), f, ts...))
		if _, isPtr := t.Underlying().(*types.Pointer); !isPtr {
			e.assume(st.reach, e.typeAssume(v, t, st.hwm))
		} else {
			e.assume(st.reach, Le(I(0), v))
		}
		rs = append(rs, tv(v))
	}
	var r Val
	switch len(rs) {
	case 0:
	case 1:
		r = rs[0]
	default:
		r = Val{Tuple: rs}
	}
	e.traceAfterHook(st, c, key, r)
	return r
}

func (e *Enc) noteAssumption(s string) {
	for _, w := range e.warnings {
		if w == "assumption: "+s {
			return
		}
	}
	e.warnings = append(e.warnings, "assumption: "+s)
}

// contractParamNames: names by which a contract refers to the callee's parameters.
func (e *Enc) contractParamNames(ct *Contract, c *ssa.CallCommon, n int) []string {
	if len(ct.ParamNames) > 0 {
		if len(ct.ParamNames) != n {
			e.warn("contract %s names %d parameters, call has %d", ct.Key, len(ct.ParamNames), n)
		}
		names := make([]string, n)
		copy(names, ct.ParamNames)
		return names
	}
	if f := c.StaticCallee(); f != nil && len(f.Params) == n {
		names := make([]string, n)
		for i, p := range f.Params {
			names[i] = p.Name()
		}
		return names
	}
	names := make([]string, n)
	sig := c.Signature()
	off := 0
	if c.IsInvoke() || (sig.Recv() != nil && n == sig.Params().Len()+1) {
		names[0] = "recv"
		if sig.Recv() != nil && sig.Recv().Name() != "" {
			names[0] = sig.Recv().Name()
		}
		off = 1
	}
	for i := 0; i+off < n && i < sig.Params().Len(); i++ {
		names[i+off] = sig.Params().At(i).Name()
		if names[i+off] == "" || names[i+off] == "_" {
			names[i+off] = fmt.Sprintf("a%d", i)
		}
	}
	return names
}

func (e *Enc) calleePkg(c *ssa.CallCommon) *types.Package {
	if f := c.StaticCallee(); f != nil {
		if f.Pkg != nil {
			return f.Pkg.Pkg
		}
		if f.Signature.Recv() != nil {
			return recvPkg(f.Signature.Recv().Type())
		}
		if p := f.Parent(); p != nil && p.Pkg != nil {
			return p.Pkg.Pkg
		}
	}
	if c.IsInvoke() {
		if n, ok := c.Value.Type().(*types.Named); ok && n.Obj().Pkg() != nil {
			return n.Obj().Pkg()
		}
	}
	return e.pkg
}

func (e *Enc) applyContract(st *State, ct *Contract, c *ssa.CallCommon, key string, args []Val, argTypes []types.Type, sig *types.Signature, ins ssa.Instruction) Val {
	names := e.contractParamNames(ct, c, len(args))
	sc := &SCtx{e: e, st: st, old: st, vars: map[string]Val{}, vtypes: map[string]types.Type{}, pkg: e.calleePkg(c)}
	for i, n := range names {
		if n == "" {
			continue
		}
		sc.vars[n] = args[i]
		sc.vtypes[n] = argTypes[i]
	}
	short := calleeShort(key)
	if len(ct.Requires) > 0 {
		e.useLemmas(st)
	}
	for i, cl := range ct.Requires {
		t, err := sc.evalBool(cl.Expr)
		if err != nil {
			e.unsupported = fmt.Sprintf("call %s: requires %q: %v", key, cl.Text, err)
			return Val{}
		}
		anchor := short + "." + cl.Label
		if cl.Label == "" {
			anchor = fmt.Sprintf("%s.req%d", short, i)
		}
		e.oblige("pre", anchor, clauseProps(cl, e.autoProps()), st.reach, t, "precondition of "+key+": "+cl.Text, ins.Pos())
	}
	for i, cl := range ct.PanicsWhen {
		t, err := sc.evalBool(cl.Expr)
		if err != nil {
			e.unsupported = fmt.Sprintf("call %s: panics_when %q: %v", key, cl.Text, err)
			return Val{}
		}
		anchor := fmt.Sprintf("%s.panics%d", short, i)
		if cl.Label != "" {
			anchor = short + "." + cl.Label
		}
		e.panicsWhen(st, anchor, cl, t, key, ins)
	}
	e.traceCallHook(st, c, key, args, sc)
	old := st.clone()
	// havoc
	if ct.ModifiesAll {
		ms := newModSet()
		ms.all = true
		e.havoc(st, ms, "c")
	} else {
		nh := e.fresh("hwm", SInt)
		e.assume(st.reach, Ge(nh, st.hwm))
		st.hwm = nh
		osc := *sc
		osc.st = old
		for _, p := range ct.Modifies {
			if err := e.havocPath(st, &osc, p); err != nil {
				e.unsupported = fmt.Sprintf("call %s: modifies %q: %v", key, p, err)
				return Val{}
			}
		}
	}
	if ct.ModifiesAll || len(ct.Modifies) > 0 {
		e.assumeGlobalInvs(st)
	}
	var resTypes []types.Type
	for i := 0; i < sig.Results().Len(); i++ {
		resTypes = append(resTypes, sig.Results().At(i).Type())
	}
	r := e.freshResults(st, "r_"+short, resTypes)
	sc2 := &SCtx{e: e, st: st, old: old, vars: sc.vars, vtypes: sc.vtypes, pkg: sc.pkg}
	if len(resTypes) == 1 {
		sc2.bindResults([]Val{r}, sig.Results())
	} else if len(resTypes) > 1 {
		sc2.bindResults(r.Tuple, sig.Results())
	}
	for _, cl := range ct.Ensures {
		if e.P.usesTrace(cl.Expr, 0) {
			// statements about the callee's own activation trace say nothing about the caller's trace
			continue
		}
		t, err := sc2.evalBool(cl.Expr)
		if err != nil {
			e.unsupported = fmt.Sprintf("call %s: ensures %q: %v", key, cl.Text, err)
			return Val{}
		}
		e.assume(st.reach, t)
	}
	if ct.NoReturn {
		e.callsNoReturn = true
		st.reach = TFalse
	}
	e.traceAfter(st, key, sc2)
	return r
}

// havocPath gives the location named by a modifies path a fresh value. Special forms:
// elems(x) — all elements of slice x; heap("T.f") — a whole field heap; mapof(m) — a map's contents.
func (e *Enc) havocPath(st *State, osc *SCtx, path string) error {
	x, err := parseSpecExpr(path)
	if err != nil {
		return err
	}
	if c, ok := x.(SCall); ok {
		switch c.Fun {
		case "elems":
			v, t, err := osc.eval(c.Args[0])
			if err != nil {
				return err
			}
			if pt, ok := t.Underlying().(*types.Pointer); ok {
				if at, ok := pt.Elem().Underlying().(*types.Array); ok && !isStructVal(at.Elem()) {
					es := sortOf(at.Elem())
					name := "E:" + es
					h := e.comp(st, name, arrSort(SInt, arrSort(SInt, es)))
					st.heaps[name] = e.def("h", Store(h, v.T, e.fresh("elems", arrSort(SInt, es))))
					return nil
				}
			}
			sl, ok := t.Underlying().(*types.Slice)
			if !ok {
				return fmt.Errorf("elems() of non-slice")
			}
			if isStructVal(sl.Elem()) {
				ms := newModSet()
				e.structHeaps(sl.Elem(), ms)
				ms2 := newModSet()
				ms2.heaps = ms.heaps
				e.havocHeaps(st, ms2)
				return nil
			}
			e.declSlice()
			es := sortOf(sl.Elem())
			name := "E:" + es
			h := e.comp(st, name, arrSort(SInt, arrSort(SInt, es)))
			st.heaps[name] = e.def("h", Store(h, app(SInt, "sl_base", v.T), e.fresh("elems", arrSort(SInt, es))))
			return nil
		case "heap":
			s, ok := c.Args[0].(SStrLit)
			if !ok {
				return fmt.Errorf("heap(\"T.f\")")
			}
			name := "H:" + s.Val
			if strings.Contains(s.Val, ":") {
				name = s.Val
			}
			srt, ok := e.compSort[name]
			if !ok {
				return nil // never touched by this function
			}
			st.heaps[name] = e.fresh("hv", srt)
			return nil
		case "mapof":
			v, t, err := osc.eval(c.Args[0])
			if err != nil {
				return err
			}
			mt, ok := t.Underlying().(*types.Map)
			if !ok {
				return fmt.Errorf("mapof() of non-map")
			}
			ps := arrSort(SInt, arrSort(sortOf(mt.Key()), SBool))
			vs := arrSort(SInt, arrSort(sortOf(mt.Key()), sortOf(mt.Elem())))
			hp := e.comp(st, mapPHeap(mt), ps)
			hv := e.comp(st, mapVHeap(mt), vs)
			st.heaps[mapPHeap(mt)] = e.def("h", Store(hp, v.T, e.fresh("mp", arrSort(sortOf(mt.Key()), SBool))))
			st.heaps[mapVHeap(mt)] = e.def("h", Store(hv, v.T, e.fresh("mv", arrSort(sortOf(mt.Key()), sortOf(mt.Elem())))))
			return nil
		}
	}
	a, t, err := osc.lvalAddr(x)
	if err != nil {
		return err
	}
	if a.A == nil {
		// a struct-typed location: havoc all its fields
		if t != nil && isStructVal(t) {
			e.havocStruct(st, a.T, t)
			return nil
		}
		return fmt.Errorf("path does not denote a scalar location")
	}
	oldv := e.load(st, a.A)
	v := e.fresh("mod_"+sanitize(path), a.A.sort)
	if t != nil {
		e.assume(st.reach, e.typeAssume(v, t, st.hwm))
	}
	e.store(st, a.A, v)
	if a.A.kind == aGlob && strings.HasPrefix(a.A.heap, "X:") {
		e.ghostAssume(st, a.A.heap[2:], v, oldv)
	}
	return nil
}

func (e *Enc) havocStruct(st *State, obj Term, t types.Type) {
	s := t.Underlying().(*types.Struct)
	for i := 0; i < s.NumFields(); i++ {
		fa := e.fieldAddr(obj, t, i)
		ft := s.Field(i).Type()
		if fa.A != nil {
			v := e.fresh("mod_"+s.Field(i).Name(), fa.A.sort)
			e.assume(st.reach, e.typeAssume(v, ft, st.hwm))
			e.store(st, fa.A, v)
		} else if isStructVal(ft) {
			e.havocStruct(st, fa.T, ft)
		}
	}
}

func (e *Enc) havocHeaps(st *State, ms *modSet) {
	for _, k := range sortedKeys(ms.heaps) {
		srt, ok := e.compSort[k]
		if !ok {
			continue
		}
		st.heaps[k] = e.fresh("hv_"+k, srt)
	}
}

// modPathHeaps: static approximation (component names) of a callee's modifies path, for loop havoc.
func (e *Enc) modPathHeaps(ct *Contract, c *ssa.CallCommon, path string) ([]string, error) {
	x, err := parseSpecExpr(path)
	if err != nil {
		return nil, err
	}
	n := len(c.Args)
	if c.IsInvoke() {
		n++
	}
	names := e.contractParamNames(ct, c, n)
	tenv := map[string]types.Type{}
	k := 0
	if c.IsInvoke() {
		tenv[names[0]] = c.Value.Type()
		k = 1
	}
	for i, a := range c.Args {
		tenv[names[i+k]] = a.Type()
	}
	pkg := e.calleePkg(c)
	var typeOfExpr func(x SExpr) (types.Type, error)
	typeOfExpr = func(x SExpr) (types.Type, error) {
		switch x := x.(type) {
		case SIdent:
			if t, ok := tenv[x.Name]; ok {
				return t, nil
			}
			if pkg != nil {
				if o, ok := pkg.Scope().Lookup(x.Name).(*types.Var); ok {
					return o.Type(), nil
				}
			}
			return nil, fmt.Errorf("unknown %s", x.Name)
		case SSel:
			t, err := typeOfExpr(x.X)
			if err != nil {
				return nil, err
			}
			st, ok := structOf(t)
			if !ok {
				return nil, fmt.Errorf("not a struct")
			}
			obj, _, _ := types.LookupFieldOrMethod(st, true, pkg, x.Name)
			if obj == nil {
				if nn, ok := st.(*types.Named); ok {
					obj, _, _ = types.LookupFieldOrMethod(st, true, nn.Obj().Pkg(), x.Name)
				}
			}
			if obj == nil {
				return nil, fmt.Errorf("no field %s", x.Name)
			}
			return obj.Type(), nil
		case SIndex:
			t, err := typeOfExpr(x.X)
			if err != nil {
				return nil, err
			}
			switch u := t.Underlying().(type) {
			case *types.Slice:
				return u.Elem(), nil
			case *types.Map:
				return u.Elem(), nil
			}
			return nil, fmt.Errorf("not indexable")
		}
		return nil, fmt.Errorf("unsupported")
	}
	switch x := x.(type) {
	case SIdent:
		for _, g := range e.P.Spec.Ghosts {
			if g.Name == x.Name {
				return []string{"X:" + x.Name}, nil
			}
		}
		if pkg != nil {
			if _, ok := pkg.Scope().Lookup(x.Name).(*types.Var); ok {
				return []string{"G:" + pkgShort(pkg) + "." + x.Name}, nil
			}
		}
		return nil, fmt.Errorf("unknown %s", x.Name)
	case SSel:
		t, err := typeOfExpr(x.X)
		if err != nil {
			return nil, err
		}
		st, ok := structOf(t)
		if !ok {
			return nil, fmt.Errorf("not a struct")
		}
		// find the declaring struct for embedded promotion
		p := pkg
		if nn, ok := st.(*types.Named); ok {
			p = nn.Obj().Pkg()
		}
		obj, index, _ := types.LookupFieldOrMethod(st, true, p, x.Name)
		if obj == nil {
			return nil, fmt.Errorf("no field %s", x.Name)
		}
		cur := st
		for k, i := range index {
			s := cur.Underlying().(*types.Struct)
			if k == len(index)-1 {
				ft := s.Field(i).Type()
				if isStructVal(ft) {
					ms := newModSet()
					e.structHeaps(ft, ms)
					return sortedKeys(ms.heaps), nil
				}
				return []string{"H:" + typeName(cur) + "." + s.Field(i).Name()}, nil
			}
			cur, _ = structOf(s.Field(i).Type())
		}
	case SIndex:
		t, err := typeOfExpr(x.X)
		if err != nil {
			return nil, err
		}
		switch u := t.Underlying().(type) {
		case *types.Slice:
			return []string{"E:" + sortOf(u.Elem())}, nil
		case *types.Map:
			return []string{mapVHeap(u), mapPHeap(u)}, nil
		}
	case SCall:
		switch x.Fun {
		case "elems":
			t, err := typeOfExpr(x.Args[0])
			if err != nil {
				return nil, err
			}
			if at, ok := t.Underlying().(*types.Array); ok {
				return []string{"E:" + sortOf(at.Elem())}, nil
			}
			if sl, ok := t.Underlying().(*types.Slice); ok {
				if isStructVal(sl.Elem()) {
					ms := newModSet()
					e.structHeaps(sl.Elem(), ms)
					return sortedKeys(ms.heaps), nil
				}
				return []string{"E:" + sortOf(sl.Elem())}, nil
			}
		case "heap":
			if s, ok := x.Args[0].(SStrLit); ok {
				if strings.Contains(s.Val, ":") {
					return []string{s.Val}, nil
				}
				return []string{"H:" + s.Val}, nil
			}
		case "mapof":
			t, err := typeOfExpr(x.Args[0])
			if err != nil {
				return nil, err
			}
			if mt, ok := t.Underlying().(*types.Map); ok {
				return []string{mapVHeap(mt), mapPHeap(mt)}, nil
			}
		}
	}
	return nil, fmt.Errorf("unsupported modifies path %q", path)
}

// ---------------------------------------------------------------------------
// Builtins

func (e *Enc) builtin(st *State, b *ssa.Builtin, c *ssa.CallCommon, ins ssa.Instruction) Val {
	ap := e.autoProps()
	switch b.Name() {
	case "len", "cap":
		x := e.val(st, c.Args[0])
		switch u := c.Args[0].Type().Underlying().(type) {
		case *types.Slice:
			e.declSlice()
			return tv(app(SInt, "sl_"+b.Name(), x.T))
		case *types.Basic:
			e.declStr()
			return tv(app(SInt, "strlen", x.T))
		case *types.Map:
			if g, ok := e.guardedMaps[c.Args[0]]; ok {
				e.lockAccess(st, g.heap, g.obj, false, "len")
			}
			r := e.def("maplen", e.mapLen(st, u, x.T))
			e.assume(st.reach, Le(I(0), r))
			return tv(r)
		case *types.Pointer:
			return tv(I(u.Elem().Underlying().(*types.Array).Len()))
		case *types.Array:
			return tv(I(u.Len()))
		case *types.Chan:
			r := e.fresh("chanlen", SInt)
			e.assume(st.reach, Le(I(0), r))
			return tv(r)
		}
	case "append":
		return e.appendBuiltin(st, c, ins)
	case "copy":
		dst := e.val(st, c.Args[0])
		src := e.val(st, c.Args[1])
		e.declSlice()
		n := e.fresh("copied", SInt)
		srcLen := app(SInt, "sl_len", src.T)
		if isString(c.Args[1].Type()) {
			e.declStr()
			srcLen = app(SInt, "strlen", src.T)
		}
		dl := app(SInt, "sl_len", dst.T)
		e.assume(st.reach, Eq(n, Ite(Lt(dl, srcLen), dl, srcLen)))
		if sl, ok := c.Args[0].Type().Underlying().(*types.Slice); ok && !isStructVal(sl.Elem()) {
			es := sortOf(sl.Elem())
			name := "E:" + es
			h := e.comp(st, name, arrSort(SInt, arrSort(SInt, es)))
			st.heaps[name] = e.def("h", Store(h, app(SInt, "sl_base", dst.T), e.fresh("copied", arrSort(SInt, es))))
		}
		return tv(n)
	case "delete":
		m := e.val(st, c.Args[0]).T
		k := e.asTerm(st, e.val(st, c.Args[1]))
		mt := c.Args[0].Type().Underlying().(*types.Map)
		ps := arrSort(SInt, arrSort(sortOf(mt.Key()), SBool))
		hp := e.comp(st, mapPHeap(mt), ps)
		e.frameCheckMap(st, ins, m)
		if g, ok := e.guardedMaps[c.Args[0]]; ok {
			e.lockAccess(st, g.heap, g.obj, true, "delete")
		}
		// deleting from a nil map is a no-op
		st.heaps[mapPHeap(mt)] = e.def("h", Ite(Eq(m, I(0)), hp, Store(hp, m, Store(Select(hp, m), k, TFalse))))
		return Val{}
	case "print", "println":
		return Val{}
	case "recover":
		e.declIface()
		r := e.fresh("recovered", SInt)
		if e.hasGhost("panicking") {
			e.assume(st.reach, Eq(Not(Eq(r, I(0))), e.comp(st, "X:panicking", SBool)))
		}
		return tv(r)
	case "ssa:wrapnilchk":
		x := e.val(st, c.Args[0])
		e.oblige("nil", "wrapnilchk", ap, st.reach, Not(Eq(x.T, I(0))), "nil receiver in method wrapper", ins.Pos())
		return x
	case "ssa:deferstack":
		return tv(I(0))
	case "close":
		e.val(st, c.Args[0])
		e.warn("close() of a Go channel not modelled")
		return Val{}
	}
	e.warn("unhandled builtin %s", b.Name())
	if v, ok := ins.(ssa.Value); ok {
		return tv(e.fresh(b.Name(), sortOf(v.Type())))
	}
	return Val{}
}

func (e *Enc) appendBuiltin(st *State, c *ssa.CallCommon, ins ssa.Instruction) Val {
	e.declSlice()
	s := e.val(st, c.Args[0]).T
	t := e.val(st, c.Args[1]).T
	sl := c.Args[0].Type().Underlying().(*types.Slice)
	sLen, sCap, sBase, sOff := app(SInt, "sl_len", s), app(SInt, "sl_cap", s), app(SInt, "sl_base", s), app(SInt, "sl_off", s)
	var tLen Term
	tIsStr := isString(c.Args[1].Type())
	if tIsStr {
		e.declStr()
		tLen = app(SInt, "strlen", t)
	} else {
		tLen = app(SInt, "sl_len", t)
	}
	newLen := e.def("applen", Add(sLen, tLen))
	inplace := e.def("inplace", Le(newLen, sCap))
	fresh := e.allocRef(st, "appbase")
	rBase := e.def("rbase", Ite(inplace, sBase, fresh))
	rOff := e.def("roff", Ite(inplace, sOff, I(0)))
	rCap := e.fresh("rcap", SInt)
	e.assume(st.reach, And(Imp(inplace, Eq(rCap, sCap)), Ge(rCap, newLen)))
	r := e.mkSlice(st, rBase, rOff, newLen, rCap)
	e.assume(st.reach, Imp(Lt(I(0), newLen), Not(Eq(r, I(0)))))
	if !isStructVal(sl.Elem()) {
		es := sortOf(sl.Elem())
		name := "E:" + es
		hs := arrSort(SInt, arrSort(SInt, es))
		h := e.comp(st, name, hs)
		A := e.fresh("appelems", arrSort(SInt, es))
		oldS := e.def("olds", Select(h, sBase))
		e.n++
		q := fmt.Sprintf("qi_%d", e.n)
		qi := Term{q, SInt}
		// kept prefix
		e.assume(st.reach, Term{fmt.Sprintf("(forall ((%s Int)) (! (=> (and (<= 0 %s) (< %s %s)) (= (select %s (eix %s %s)) (select %s (eix %s %s)))) :pattern ((select %s (eix %s %s)))))",
			q, q, q, sLen.S, A.S, rOff.S, q, oldS.S, sOff.S, q, A.S, rOff.S, q), SBool})
		// appended elements
		if !tIsStr {
			oldT := e.def("oldt", Select(h, app(SInt, "sl_base", t)))
			tOff := app(SInt, "sl_off", t)
			e.assume(st.reach, Term{fmt.Sprintf("(forall ((%s Int)) (! (=> (and (<= 0 %s) (< %s %s)) (= (select %s (eix %s (+ %s %s))) (select %s (eix %s %s)))) :pattern ((select %s (eix %s (+ %s %s))))))",
				q, q, q, tLen.S, A.S, rOff.S, sLen.S, q, oldT.S, tOff.S, q, A.S, rOff.S, sLen.S, q), SBool})
			// common special case: exactly one element appended
			e.assume(st.reach, Imp(Eq(tLen, I(1)), Eq(Select(A, e.eix(rOff, sLen)), Select(oldT, e.eix(tOff, I(0))))))
		}
		// in place: everything outside the appended window is unchanged
		e.assume(st.reach, Imp(inplace, Term{fmt.Sprintf("(forall ((%s Int)) (! (=> (or (< %s (+ %s %s)) (>= %s (+ %s %s))) (= (select %s %s) (select %s %s))) :pattern ((select %s %s))))",
			q, q, sOff.S, sLen.S, q, sOff.S, newLen.S, A.S, q, oldS.S, q, A.S, q), SBool}))
		_ = qi
		st.heaps[name] = e.def("h", Store(h, rBase, A))
	} else if stt, ok := sl.Elem().Underlying().(*types.Struct); ok && !tIsStr {
		// elements are struct objects elemref(base, position); their (flat) fields live in the field heaps: the result's
		// elements carry the fields of the kept prefix and of the appended elements, every other object is unchanged
		tname := typeName(sl.Elem())
		tBase, tOff := app(SInt, "sl_base", t), app(SInt, "sl_off", t)
		for i := 0; i < stt.NumFields(); i++ {
			ft := stt.Field(i).Type()
			if isStructVal(ft) {
				continue
			}
			if _, isArr := ft.Underlying().(*types.Array); isArr {
				continue
			}
			hn := "H:" + tname + "." + stt.Field(i).Name()
			hs := arrSort(SInt, sortOf(ft))
			e.compSort[hn] = hs
			h := e.comp(st, hn, hs)
			h2 := e.fresh("apph", hs)
			e.n++
			q := fmt.Sprintf("qa_%d", e.n)
			er := func(b, off, k string) string { return fmt.Sprintf("(elemref %s (eix %s %s))", b, off, k) }
			e.elemRef(rBase, I(0))
			e.assume(st.reach, Term{fmt.Sprintf("(forall ((%s Int)) (! (=> (and (<= 0 %s) (< %s %s)) (= (select %s %s) (select %s %s))) :pattern ((select %s %s))))",
				q, q, q, sLen.S, h2.S, er(rBase.S, rOff.S, q), h.S, er(sBase.S, sOff.S, q), h2.S, er(rBase.S, rOff.S, q)), SBool})
			e.assume(st.reach, Term{fmt.Sprintf("(forall ((%s Int)) (! (=> (and (<= 0 %s) (< %s %s)) (= (select %s %s) (select %s %s))) :pattern ((select %s %s))))",
				q, q, q, tLen.S, h2.S, er(rBase.S, rOff.S, "(+ "+sLen.S+" "+q+")"), h.S, er(tBase.S, tOff.S, q), h2.S, er(rBase.S, rOff.S, "(+ "+sLen.S+" "+q+")")), SBool})
			e.assume(st.reach, Imp(Eq(tLen, I(1)), Eq(Select(h2, e.elemRef(rBase, e.eix(rOff, sLen))), Select(h, e.elemRef(tBase, e.eix(tOff, I(0)))))))
			inWin := fmt.Sprintf("(ite %s (and (<= (+ %s %s) (elemref_i %s)) (< (elemref_i %s) (+ %s %s))) true)", inplace.S, rOff.S, sLen.S, q, q, rOff.S, newLen.S)
			e.assume(st.reach, Term{fmt.Sprintf("(forall ((%s Int)) (! (=> (not (and (= %s (elemref (elemref_b %s) (elemref_i %s))) (= (elemref_b %s) %s) %s)) (= (select %s %s) (select %s %s))) :pattern ((select %s %s))))",
				q, q, q, q, q, rBase.S, inWin, h2.S, q, h.S, q, h2.S, q), SBool})
			st.heaps[hn] = h2
		}
	}
	return tv(r)
}

// ---------------------------------------------------------------------------
// Defers, go

func (e *Enc) allDefers() []*ssa.Defer {
	var ds []*ssa.Defer
	for _, b := range e.fn.Blocks {
		for _, ins := range b.Instrs {
			if d, ok := ins.(*ssa.Defer); ok {
				ds = append(ds, d)
			}
		}
	}
	return ds
}

func deferName(d *ssa.Defer) string {
	return fmt.Sprintf("X:defer_%d_%d", d.Block().Index, instrIndex(d))
}

func (e *Enc) runDefers(st *State) {
	ds := e.allDefers()
	for i := len(ds) - 1; i >= 0; i-- {
		d := ds[i]
		cond, ok := st.heaps[deferName(d)]
		if !ok || cond.S == "false" {
			continue
		}
		if cond.S == "true" {
			e.call(st, &d.Call, d, true)
			st.heaps[deferName(d)] = TFalse
			continue
		}
		s1 := st.clone()
		s1.reach = e.def("reach_defer", And(st.reach, cond))
		e.call(s1, &d.Call, d, true)
		s1.heaps[deferName(d)] = TFalse
		s2 := st.clone()
		s2.reach = e.def("reach_nodefer", And(st.reach, Not(cond)))
		m := e.merge(d.Block(), []*State{s1, s2})
		*st = *m
	}
}

func (e *Enc) goStmt(st *State, ins *ssa.Go) {
	c := &ins.Call
	for _, a := range c.Args {
		e.val(st, a)
	}
	ct, key := e.calleeContract(c)
	ok := ct != nil && !ct.MayPanic && len(ct.PanicsWhen) == 0 && (ct.Trusted || e.isInternalKey(key) || strings.HasPrefix(key, "functype:") || strings.HasPrefix(key, "func:"))
	if fn := c.StaticCallee(); fn != nil && startsWithRecover(fn) {
		ok = true // the goroutine's function recovers every panic raised in it
	}
	goal := TFalse
	if ok {
		goal = TTrue
	}
	e.oblige("spawn", calleeShort(key), e.autoProps(), st.reach, goal, "goroutine started on "+key+" must not be able to panic (no recover in a bare goroutine)", ins.Pos())
	// `spawnsite` clauses of the function's contract: facts that must hold wherever it starts a goroutine
	if e.c != nil {
		for _, cs := range e.c.CallSites {
			if cs.Callee != "go:" {
				continue
			}
			sc := e.specCtx(st, e.pre)
			sc.preferLocals = true
			// the operands handed to the new goroutine: goarg0.. (0 when absent), ngoargs
			sc.vars["ngoargs"] = tv(I(int64(len(c.Args))))
			sc.vtypes["ngoargs"] = types.Typ[types.Int]
			for j := 0; j < 6; j++ {
				n := fmt.Sprintf("goarg%d", j)
				if j < len(c.Args) {
					sc.vars[n] = tv(e.asTerm(st, e.val(st, c.Args[j])))
					sc.vtypes[n] = c.Args[j].Type()
				} else {
					sc.vars[n] = tv(I(0))
					sc.vtypes[n] = types.Typ[types.Int]
				}
			}
			t, err := sc.evalBool(cs.Clause.Expr)
			if err != nil {
				e.unsupported = fmt.Sprintf("spawnsite: %q: %v", cs.Clause.Text, err)
				return
			}
			anchor := cs.Clause.Label
			if anchor == "" {
				anchor = "spawnsite"
			}
			e.oblige("ghost", anchor, clauseProps(cs.Clause, e.autoProps()), st.reach, t, "where a goroutine is started: "+cs.Clause.Text, ins.Pos())
		}
	}
}

// callSiteClauses: assertions of the function's own contract attached to this call (by callee and ordinal).
func (e *Enc) callSiteClauses(st *State, c *ssa.CallCommon, key string, args []Val, argTypes []types.Type, ins ssa.Instruction) {
	if e.c == nil || len(e.c.CallSites) == 0 {
		return
	}
	if e.callOrd == nil {
		e.callOrd = map[string]int{}
	}
	for i, cs := range e.c.CallSites {
		if !strings.HasSuffix(key, cs.Callee) {
			continue
		}
		if cs.Text != "" && !callMentions(c, cs.Text) {
			continue
		}
		ordKey := fmt.Sprintf("%d", i)
		k := e.callOrd[ordKey]
		e.callOrd[ordKey] = k + 1
		if cs.Ordinal >= 0 && cs.Ordinal != k {
			continue
		}
		sc := e.specCtx(st, e.pre)
		sc.preferLocals = true
		// the callee's arguments are available as arg0, arg1, ...
		for j, a := range args {
			n := fmt.Sprintf("arg%d", j)
			sc.vars[n] = a
			sc.vtypes[n] = argTypes[j]
			// callargJ: the same, under a name that cannot clash with a parameter of the function under verification
			n = fmt.Sprintf("callarg%d", j)
			sc.vars[n] = a
			sc.vtypes[n] = argTypes[j]
		}
		t, err := sc.evalBool(cs.Clause.Expr)
		if err != nil {
			e.unsupported = fmt.Sprintf("callsite %s: %v", cs.Callee, err)
			return
		}
		anchor := cs.Clause.Label
		if anchor == "" {
			anchor = calleeShort(key)
		}
		e.oblige("ghost", anchor, clauseProps(cs.Clause, e.autoProps()), st.reach, t, "at call of "+key+": "+cs.Clause.Text, ins.Pos())
	}
}

// callMentions: one of the call's arguments is, or is concatenated from, a string constant containing text.
func callMentions(c *ssa.CallCommon, text string) bool {
	var has func(v ssa.Value, depth int) bool
	has = func(v ssa.Value, depth int) bool {
		if depth > 6 {
			return false
		}
		switch v := v.(type) {
		case *ssa.Const:
			if v.Value != nil && v.Value.Kind() == constant.String {
				return strings.Contains(constant.StringVal(v.Value), text)
			}
		case *ssa.BinOp:
			return has(v.X, depth+1) || has(v.Y, depth+1)
		case *ssa.Call:
			for _, a := range v.Call.Args {
				if has(a, depth+1) {
					return true
				}
			}
		case *ssa.MakeInterface:
			return has(v.X, depth+1)
		}
		return false
	}
	for _, a := range c.Args {
		if has(a, 0) {
			return true
		}
	}
	return false
}

var traceBuiltins = map[string]bool{"ncalls": true, "calleeIs": true, "arg": true, "res": true, "res2": true, "res3": true, "childrenWalked": true}

// usesTrace: the expression mentions the activation trace, directly or through spec functions.
func (P *Prog) usesTrace(x SExpr, depth int) bool {
	calls := map[string]bool{}
	specCalls(x, calls)
	for c := range calls {
		if traceBuiltins[c] {
			return true
		}
		if fn := P.Spec.Funs[c]; fn != nil && fn.Body != nil && depth < 6 {
			if P.usesTrace(fn.Body, depth+1) {
				return true
			}
		}
	}
	return false
}

// startsWithRecover: the function defers, in its entry block, a function that calls recover().
func startsWithRecover(fn *ssa.Function) bool {
	if len(fn.Blocks) == 0 {
		return false
	}
	for _, ins := range fn.Blocks[0].Instrs {
		d, ok := ins.(*ssa.Defer)
		if !ok {
			continue
		}
		g := d.Call.StaticCallee()
		if g == nil {
			continue
		}
		for _, b := range g.Blocks {
			for _, i2 := range b.Instrs {
				if c, ok := i2.(*ssa.Call); ok {
					if bi, ok := c.Call.Value.(*ssa.Builtin); ok && bi.Name() == "recover" {
						return true
					}
				}
			}
		}
	}
	return false
}
