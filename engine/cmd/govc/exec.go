package main

import (
	"fmt"
	"go/constant"
	"go/token"
	"go/types"
	"math"
	"sort"
	"strings"
	"sync"

	"golang.org/x/tools/go/ssa"
)

// ---------------------------------------------------------------------------
// Values, addresses, states

type addrKind int

const (
	aCell addrKind = iota // private local cell
	aHeap                 // H / M / G heap: select(heap, obj)
	aElem                 // nested element heap: select(select(heap, obj), idx)
	aGlob                 // scalar global: the component itself
)

type Addr struct {
	kind  addrKind
	alloc *ssa.Alloc
	heap  string
	sort  string // sort of the stored value
	obj   Term
	idx   Term
	typ   types.Type // Go type of the stored value
}

type Val struct {
	T     Term
	A     *Addr
	Tuple []Val
}

func tv(t Term) Val { return Val{T: t} }

type State struct {
	reach Term
	cells map[*ssa.Alloc]Term
	heaps map[string]Term
	hwm   Term
	defers []*ssa.Defer // defers registered on every path to here (dominating defers)
	splits []Term
}

func (s *State) clone() *State {
	n := &State{reach: s.reach, hwm: s.hwm, cells: make(map[*ssa.Alloc]Term, len(s.cells)), heaps: make(map[string]Term, len(s.heaps))}
	for k, v := range s.cells {
		n.cells[k] = v
	}
	for k, v := range s.heaps {
		n.heaps[k] = v
	}
	n.defers = append([]*ssa.Defer(nil), s.defers...)
	n.splits = s.splits
	return n
}

type Obl struct {
	Name   string
	Class  string
	Anchor string
	Props  []string
	Prefix int // number of body lines visible
	Reach  Term
	Goal   Term
	Desc   string
	Pos    string
	Func   string
	Extra  []string // extra assertions only for this obligation
	Budget int      // solver timeout override in seconds (0 = tier default)
	Blk    int      // block of the obligation (-1: whole function)
	Splits []Term   // reach conditions of the incoming edges of the last merge (for case splitting)
	Witness map[string]string // ground obligations: what a failing instance looks like (used by the replay harness)
}

func (o *Obl) Group() string { return o.Func + "/" + o.Class + "/" + o.Anchor }

// cover: a point that must be reachable (vacuity guard): the assumptions up to it must not be contradictory.
type cover struct {
	reach  Term
	prefix int
	blk    int
	pos    string
}

type guardedMap struct {
	heap string
	obj  Term
}

type loopInfo struct {
	header  *ssa.BasicBlock
	ordinal int
	blocks  map[*ssa.BasicBlock]bool
	headSt  *State // state at header after havoc (for variants)
	variant []Term
	progress []Term
	spec    *LoopSpec
}

type Enc struct {
	P     *Prog
	fn    *ssa.Function
	key   string
	c     *Contract
	pkg   *types.Package
	decls *Decls
	body  []string
	obls  []*Obl
	n     int

	compSort  map[string]string // state component -> sort
	strConsts map[string]Term
	strOrder  []string
	callsNoReturn bool // the function calls a noreturn callee (os.Exit): its own returns may legitimately be unreachable
	tidsUsed  map[int]bool
	rangeStart map[*ssa.Range]Term // key set of the map at the start of each map iteration
	ifacesUsed map[string]*types.Interface
	vals      map[ssa.Value]Val
	pre       *State
	warnings  []string
	unsupported string
	private   map[*ssa.Alloc]bool
	allocByName map[string][]*ssa.Alloc
	oblCount  map[string]int
	loops     map[*ssa.BasicBlock]*loopInfo
	edgeOut   map[[2]int]*State
	retCount  int
	wrapArith bool
	paramVals map[string]Val
	paramTypes map[string]types.Type
	assumedGlobalInv bool
	curInstr  ssa.Instruction
	curSplits []Term
	bodyBlk   []int          // block in which each body line was emitted (-1: global)
	curBlk    int
	anc       map[int]map[int]bool // anc[b]: blocks that can reach b (back edges removed), including b
	trace     *traceState
	subTags   int
	covers    []cover
	ownStores map[string][]Term
	callOrd   map[string]int
	finalOnce sync.Once
	lateText  string
	declText  string
	concMode  bool
	sectionCount int
	acqStates map[int]*State
	guardedMaps map[ssa.Value]guardedMap
	protected bool // a deferred recoverFunc is active (function-level)
	panicStates []*State
}

func newEnc(P *Prog, fn *ssa.Function) *Enc {
	e := &Enc{P: P, fn: fn, key: funcKey(fn), decls: newDecls(), compSort: map[string]string{}, strConsts: map[string]Term{},
		tidsUsed: map[int]bool{}, rangeStart: map[*ssa.Range]Term{}, ifacesUsed: map[string]*types.Interface{}, vals: map[ssa.Value]Val{}, private: map[*ssa.Alloc]bool{}, allocByName: map[string][]*ssa.Alloc{},
		oblCount: map[string]int{}, loops: map[*ssa.BasicBlock]*loopInfo{}, edgeOut: map[[2]int]*State{},
		paramVals: map[string]Val{}, paramTypes: map[string]types.Type{}, curBlk: -1}
	e.c = P.Spec.Contracts[e.key]
	if fn.Pkg != nil {
		e.pkg = fn.Pkg.Pkg
	} else if fn.Signature.Recv() != nil {
		e.pkg = recvPkg(fn.Signature.Recv().Type())
	}
	if p := fn.Parent(); p != nil && e.pkg == nil && p.Pkg != nil {
		e.pkg = p.Pkg.Pkg
	}
	if e.c != nil && e.c.Arith == "wrap" {
		e.wrapArith = true
	}
	return e
}

func (e *Enc) warn(format string, a ...interface{}) {
	e.warnings = append(e.warnings, fmt.Sprintf(format, a...))
}

func (e *Enc) fresh(prefix, sort string) Term {
	e.n++
	name := fmt.Sprintf("%s_%d", sanitize(prefix), e.n)
	e.decls.add("const:"+name, fmt.Sprintf("(declare-const %s %s)", name, sort))
	return Term{name, sort}
}

func (e *Enc) assert(t Term) {
	if t.S == "true" {
		return
	}
	e.body = append(e.body, "(assert "+t.S+")")
	e.bodyBlk = append(e.bodyBlk, e.curBlk)
}

func (e *Enc) assume(reach, fact Term) { e.assert(Imp(reach, fact)) }

// def names a term by a fresh constant.
func (e *Enc) def(prefix string, t Term) Term {
	if len(t.S) < 24 && !strings.Contains(t.S, " ") {
		return t
	}
	c := e.fresh(prefix, t.Sort)
	e.assert(Eq(c, t))
	return c
}

func (e *Enc) pos(p token.Pos) string {
	if !p.IsValid() || e.P.Fset == nil {
		return ""
	}
	ps := e.P.Fset.Position(p)
	fn := ps.Filename
	if strings.HasPrefix(fn, e.P.RepoDir+"/") {
		fn = fn[len(e.P.RepoDir)+1:]
	}
	return fmt.Sprintf("%s:%d", fn, ps.Line)
}

func (e *Enc) oblige(class, anchor string, props []string, reach, goal Term, desc string, p token.Pos) {
	if goal.S == "true" {
		// still count it: trivially discharged obligations are obligations
	}
	anchor = sanitizeAnchor(anchor)
	g := class + "/" + anchor
	k := e.oblCount[g]
	e.oblCount[g] = k + 1
	if p == token.NoPos && e.curInstr != nil {
		p = e.curInstr.Pos()
	}
	o := &Obl{Name: fmt.Sprintf("%s/%s#%d", e.key, g, k), Class: class, Anchor: anchor, Props: props, Prefix: len(e.body), Reach: reach, Goal: goal, Desc: desc, Pos: e.pos(p), Func: e.key, Splits: e.curSplits, Blk: e.curBlk}
	e.obls = append(e.obls, o)
	// after the check, execution continues only if it held
	e.assume(reach, goal)
}

// obligeNoAssume: like oblige, but the goal is not assumed afterwards (the caller adds its own continuation facts).
func (e *Enc) obligeNoAssume(class, anchor string, props []string, reach, goal Term, desc string, p token.Pos) {
	n := len(e.body)
	e.oblige(class, anchor, props, reach, goal, desc, p)
	e.body = e.body[:n]
	e.bodyBlk = e.bodyBlk[:n]
}

func sanitizeAnchor(s string) string {
	var b strings.Builder
	for _, r := range s {
		if r == ' ' || r == '/' || r == '#' {
			b.WriteRune('_')
		} else {
			b.WriteRune(r)
		}
	}
	return b.String()
}

// autoProps: which properties own the generated safety obligations of this function.
func (e *Enc) autoProps() []string {
	if e.c != nil && len(e.c.AutoProps) > 0 {
		return e.c.AutoProps
	}
	if e.pkg == nil {
		return nil
	}
	switch pkgShort(e.pkg) {
	case "parser":
		if e.fn != nil && strings.HasPrefix(e.fn.Name(), "yyAction_") {
			// extracted semantic actions (C03); inside the trusted driver as far as C01/C15 are concerned
			return []string{"C03"}
		}
		return []string{"C01", "C15"}
	case "env":
		return []string{"C01", "C12"}
	case "vm":
		return []string{"C01"}
	case "core":
		return []string{"C01", "C19"}
	case "astutil":
		return []string{"C17"}
	case "main":
		return []string{"C18"}
	}
	return nil
}

// ---------------------------------------------------------------------------
// Sorts and types

func isOpaqueStruct(t types.Type) bool {
	n, ok := t.(*types.Named)
	if !ok {
		if a, ok2 := t.(*types.Alias); ok2 {
			return isOpaqueStruct(types.Unalias(a))
		}
		return false
	}
	if _, ok := n.Underlying().(*types.Struct); !ok {
		return false
	}
	if isAnkoPkg(n.Obj().Pkg()) {
		return false
	}
	// external plain-data structs whose fields the code under contract reads or writes (reflect.SelectCase, ...)
	return !transparentExt[typeName(n)]
}

// transparentExt: external struct types with a field access somewhere in the anko packages (filled by the loader).
var transparentExt = map[string]bool{}

func computeTransparentExt(P *Prog) {
	note := func(t types.Type) {
		if p, ok := t.Underlying().(*types.Pointer); ok {
			t = p.Elem()
		}
		if n, ok := t.(*types.Named); ok && n.Obj().Pkg() != nil && !isAnkoPkg(n.Obj().Pkg()) {
			if _, ok := n.Underlying().(*types.Struct); ok {
				transparentExt[typeName(n)] = true
			}
		}
	}
	for _, f := range P.Funcs {
		for _, b := range f.Blocks {
			for _, ins := range b.Instrs {
				switch x := ins.(type) {
				case *ssa.FieldAddr:
					note(x.X.Type())
				case *ssa.Field:
					note(x.X.Type())
				}
			}
		}
	}
}

func isStructVal(t types.Type) bool {
	if _, ok := t.Underlying().(*types.Struct); !ok {
		return false
	}
	return !isOpaqueStruct(t)
}

func sortOf(t types.Type) string {
	switch u := t.Underlying().(type) {
	case *types.Basic:
		if u.Info()&types.IsBoolean != 0 {
			return SBool
		}
		if u.Info()&types.IsFloat != 0 {
			return SF64
		}
		return SInt
	}
	return SInt
}

func intRange(t types.Type) (lo, hi string, ok bool) {
	b, ok2 := t.Underlying().(*types.Basic)
	if !ok2 || b.Info()&types.IsInteger == 0 {
		return "", "", false
	}
	switch b.Kind() {
	case types.Int8:
		return "-128", "127", true
	case types.Int16:
		return "-32768", "32767", true
	case types.Int32:
		return "-2147483648", "2147483647", true
	case types.Int, types.Int64, types.UntypedInt, types.UntypedRune:
		return "-9223372036854775808", "9223372036854775807", true
	case types.Uint8:
		return "0", "255", true
	case types.Uint16:
		return "0", "65535", true
	case types.Uint32:
		return "0", "4294967295", true
	case types.Uint, types.Uint64, types.Uintptr:
		return "0", "18446744073709551615", true
	}
	return "", "", false
}

func typeName(t types.Type) string {
	switch t := t.(type) {
	case *types.Named:
		if t.Obj().Pkg() != nil {
			p := t.Obj().Pkg()
			if isAnkoPkg(p) {
				return pkgShort(p) + "." + t.Obj().Name()
			}
			return p.Name() + "." + t.Obj().Name()
		}
		return t.Obj().Name()
	case *types.Alias:
		return typeName(types.Unalias(t))
	}
	return types.TypeString(t, func(p *types.Package) string { return p.Name() })
}

// comp returns the current term of a state component (heap array, global, ghost).
func (e *Enc) comp(st *State, name, sort string) Term {
	if t, ok := st.heaps[name]; ok {
		return t
	}
	return e.comp0(name, sort)
}

// comp0 is the initial (function entry) constant of a component.
func (e *Enc) comp0(name, sort string) Term {
	if s, ok := e.compSort[name]; ok && s != sort {
		panic(fmt.Sprintf("component %s used at sorts %s and %s", name, s, sort))
	}
	e.compSort[name] = sort
	c := "c0_" + sanitize(name)
	if !e.decls.seen["const:"+c] {
		e.decls.add("const:"+c, fmt.Sprintf("(declare-const %s %s)", c, sort))
		e.preHeapAxiom(name, c)
	}
	return Term{c, sort}
}

// preHeapAxiom: at function entry the heap is closed under reachability: what a field of a pre-existing object
// refers to was itself allocated before the call (so it can never alias an object this activation allocates).
func (e *Enc) preHeapAxiom(name, c string) {
	if !strings.HasPrefix(name, "H:") || e.P == nil {
		return
	}
	i := strings.LastIndex(name, ".")
	if i < 3 {
		return
	}
	t, err := e.P.resolveType(name[2:i], e.pkg)
	if err != nil {
		return
	}
	st, ok := t.Underlying().(*types.Struct)
	if !ok {
		return
	}
	for k := 0; k < st.NumFields(); k++ {
		f := st.Field(k)
		if f.Name() != name[i+1:] {
			continue
		}
		var ref string
		switch f.Type().Underlying().(type) {
		case *types.Pointer, *types.Map, *types.Chan:
			ref = fmt.Sprintf("(select %s o)", c)
		case *types.Slice:
			e.declSlice()
			ref = fmt.Sprintf("(sl_base (select %s o))", c)
		default:
			return
		}
		e.root(I(0))
		e.decls.add("ax:pre:"+c, fmt.Sprintf("(assert (forall ((o Int)) (! (=> (< (root o) hwm0) (< (root %s) hwm0)) :pattern ((select %s o)))))", ref, c))
	}
}

func (e *Enc) zero(t types.Type) Term {
	switch sortOf(t) {
	case SBool:
		return TFalse
	case SF64:
		return Term{"(_ +zero 11 53)", SF64}
	}
	if b, ok := t.Underlying().(*types.Basic); ok && b.Info()&types.IsString != 0 {
		return e.strConst("")
	}
	return I(0)
}

func (e *Enc) strConst(s string) Term {
	if t, ok := e.strConsts[s]; ok {
		return t
	}
	name := fmt.Sprintf("str_%d", len(e.strConsts))
	e.decls.add("const:"+name, fmt.Sprintf("(declare-const %s Int)", name))
	t := Term{name, SInt}
	e.strConsts[s] = t
	e.strOrder = append(e.strOrder, s)
	return t
}

// typeAssume returns facts that hold for any value of Go type t (ranges, ref below hwm, lengths).
// root(r): the allocation a reference belongs to (an object is its own root; embedded sub-objects and
// elements of struct arrays have the root of their container). "Allocated before state S" is root(r) < S.hwm.
func (e *Enc) root(v Term) Term {
	e.decls.fun("root", []string{"Int"}, "Int")
	e.decls.add("ax:root0", "(assert (= (root 0) 0))")
	return app(SInt, "root", v)
}

func (e *Enc) typeAssume(v Term, t types.Type, hwm Term) Term {
	if lo, hi, ok := intRange(t); ok {
		return And(Le(IStr(lo), v), Le(v, IStr(hi)))
	}
	switch u := t.Underlying().(type) {
	case *types.Pointer, *types.Map, *types.Chan, *types.Signature:
		_ = u
		return And(Le(I(0), e.root(v)), Lt(e.root(v), hwm))
	case *types.Slice:
		e.declSlice()
		capMax := "72057594037927936" // 2^56: no Go slice of non-empty elements can be longer (address space)
		if st, ok := u.Elem().Underlying().(*types.Struct); ok && st.NumFields() == 0 {
			capMax = "9223372036854775807"
		}
		return And(Le(I(0), e.root(app(SInt, "sl_base", v))), Lt(e.root(app(SInt, "sl_base", v)), hwm), Le(I(0), app(SInt, "sl_off", v)), Le(app(SInt, "sl_off", v), IStr(capMax)), Le(I(0), app(SInt, "sl_len", v)), Le(app(SInt, "sl_len", v), app(SInt, "sl_cap", v)), Le(app(SInt, "sl_cap", v), IStr(capMax)),
			Imp(Eq(v, I(0)), And(Eq(app(SInt, "sl_len", v), I(0)), Eq(app(SInt, "sl_cap", v), I(0)))))
	case *types.Basic:
		if u.Info()&types.IsString != 0 {
			e.declStr()
			return And(Le(I(0), app(SInt, "strlen", v)), Le(app(SInt, "strlen", v), IStr("72057594037927936")))
		}
	case *types.Struct:
		if !isOpaqueStruct(t) {
			return And(Not(Eq(v, I(0))), Lt(I(0), e.root(v)), Lt(e.root(v), hwm))
		}
	case *types.Interface:
		e.declIface()
		return Imp(Eq(v, I(0)), Eq(app(SInt, "dyn", v), I(0)))
	}
	return TTrue
}

func (e *Enc) declSlice() {
	e.decls.fun("sl_base", []string{"Int"}, "Int")
	e.decls.fun("sl_off", []string{"Int"}, "Int")
	e.decls.fun("sl_len", []string{"Int"}, "Int")
	e.decls.fun("sl_cap", []string{"Int"}, "Int")
	e.decls.add("ax:slnil", "(assert (and (= (sl_len 0) 0) (= (sl_cap 0) 0) (= (sl_base 0) 0) (= (sl_off 0) 0)))")
	// eix(off, i): position of element i of a slice whose window starts at off. An uninterpreted symbol (with its
	// defining axiom) instead of (+ off i): the solvers rewrite arithmetic terms, which makes quantified facts about
	// slice elements unmatchable; (eix off k) is a stable trigger.
	e.decls.fun("eix", []string{"Int", "Int"}, "Int")
	e.decls.add("ax:eix", "(assert (forall ((o Int) (i Int)) (! (= (eix o i) (+ o i)) :pattern ((eix o i)))))")
}

// eix: the position of element i in the backing array of a slice with window offset off.
func (e *Enc) eix(off, i Term) Term {
	e.declSlice()
	return app(SInt, "eix", off, i)
}
func (e *Enc) declStr() {
	e.decls.fun("strlen", []string{"Int"}, "Int")
	e.decls.fun("strat", []string{"Int", "Int"}, "Int")
}
func (e *Enc) declIface() {
	e.decls.fun("dyn", []string{"Int"}, "Int")
	e.decls.fun("ival", []string{"Int"}, "Int")
	e.decls.fun("mkiface", []string{"Int", "Int"}, "Int")
	e.decls.add("ax:ifnil", "(assert (= (dyn 0) 0))")
	e.decls.add("ax:ifinj", "(assert (forall ((t Int) (v Int)) (! (=> (not (= t 0)) (and (= (dyn (mkiface t v)) t) (= (ival (mkiface t v)) v) (not (= (mkiface t v) 0)))) :pattern ((mkiface t v)))))")
	e.decls.add("ax:ifsurj", "(assert (forall ((i Int)) (! (=> (not (= i 0)) (= (mkiface (dyn i) (ival i)) i)) :pattern ((dyn i)))))")
	e.decls.add("ax:dynnz", "(assert (forall ((i Int)) (! (=> (not (= i 0)) (not (= (dyn i) 0))) :pattern ((dyn i)))))")
}

func (e *Enc) mkSlice(st *State, base, off, ln, cp Term) Term {
	e.declSlice()
	s := e.fresh("slice", SInt)
	e.assert(And(Eq(app(SInt, "sl_base", s), base), Eq(app(SInt, "sl_off", s), off), Eq(app(SInt, "sl_len", s), ln), Eq(app(SInt, "sl_cap", s), cp)))
	e.assume(st.reach, Imp(Not(Eq(base, I(0))), Not(Eq(s, I(0)))))
	return s
}

// box/unbox convert a value to/from the Int payload of an interface.
func (e *Enc) box(v Term) Term {
	switch v.Sort {
	case SBool:
		return Ite(v, I(1), I(0))
	case SF64:
		e.decls.fun("box_f64", []string{SF64}, "Int")
		e.decls.fun("unbox_f64", []string{"Int"}, SF64)
		b := app(SInt, "box_f64", v)
		e.assert(Eq(app(SF64, "unbox_f64", b), v))
		return b
	}
	return v
}
func (e *Enc) unbox(p Term, t types.Type) Term {
	switch sortOf(t) {
	case SBool:
		return Eq(p, I(1))
	case SF64:
		e.decls.fun("box_f64", []string{SF64}, "Int")
		e.decls.fun("unbox_f64", []string{"Int"}, SF64)
		return app(SF64, "unbox_f64", p)
	}
	return p
}

func (e *Enc) tid(t types.Type) Term {
	id := e.P.typeID(t)
	e.tidsUsed[id] = true
	return I(int64(id))
}

func (e *Enc) implPred(it types.Type) string {
	name := "impl_" + sanitize(typeName(it))
	e.decls.fun(name, []string{"Int"}, "Bool")
	if iface, ok := it.Underlying().(*types.Interface); ok {
		e.ifacesUsed[name] = iface
	}
	return name
}

func (e *Enc) mkIface(t types.Type, v Term) Term {
	e.declIface()
	if _, isIface := t.Underlying().(*types.Interface); isIface {
		return v
	}
	return app(SInt, "mkiface", e.tid(t), e.box(v))
}

// allocRef returns a fresh object reference.
func (e *Enc) allocRef(st *State, prefix string) Term {
	r := e.def(prefix, st.hwm)
	st.hwm = e.def("hwm", Add(st.hwm, I(1)))
	e.assume(st.reach, Lt(I(0), r))
	e.assert(Eq(e.root(r), r))
	e.decls.fun("subtag", []string{"Int"}, "Int")
	e.assert(Eq(app(SInt, "subtag", r), I(0)))
	return r
}

// ---------------------------------------------------------------------------
// Heap access

func (e *Enc) structTypeName(t types.Type) string {
	if p, ok := t.Underlying().(*types.Pointer); ok {
		t = p.Elem()
	}
	return typeName(t)
}

func (e *Enc) load(st *State, a *Addr) Term {
	switch a.kind {
	case aCell:
		if t, ok := st.cells[a.alloc]; ok {
			return t
		}
		return e.zero(a.typ)
	case aGlob:
		return e.comp(st, a.heap, a.sort)
	case aHeap:
		return Select(e.comp(st, a.heap, arrSort(SInt, a.sort)), a.obj)
	case aElem:
		return Select(Select(e.comp(st, a.heap, arrSort(SInt, arrSort(SInt, a.sort))), a.obj), a.idx)
	}
	panic("load")
}

func (e *Enc) store(st *State, a *Addr, v Term) {
	switch a.kind {
	case aCell:
		st.cells[a.alloc] = v
	case aGlob:
		e.comp(st, a.heap, a.sort)
		st.heaps[a.heap] = v
	case aHeap:
		h := e.comp(st, a.heap, arrSort(SInt, a.sort))
		st.heaps[a.heap] = e.def("h", Store(h, a.obj, v))
	case aElem:
		h := e.comp(st, a.heap, arrSort(SInt, arrSort(SInt, a.sort)))
		inner := Store(Select(h, a.obj), a.idx, v)
		st.heaps[a.heap] = e.def("h", Store(h, a.obj, inner))
	}
}

func (e *Enc) subRef(tname string, field string, obj Term) Term {
	f := "sub_" + sanitize(tname) + "_" + sanitize(field)
	e.decls.fun(f, []string{"Int"}, "Int")
	e.decls.fun(f+"_inv", []string{"Int"}, "Int")
	e.root(obj)
	e.decls.fun("subtag", []string{"Int"}, "Int")
	if !e.decls.seen["ax:"+f] {
		e.subTags++
	}
	e.decls.add("ax:"+f, fmt.Sprintf("(assert (forall ((o Int)) (! (and (= (%s_inv (%s o)) o) (not (= (%s o) 0)) (= (root (%s o)) (root o)) (= (subtag (%s o)) %d)) :pattern ((%s o)))))", f, f, f, f, f, e.subTags, f))
	return app(SInt, f, obj)
}

func (e *Enc) elemRef(base, idx Term) Term {
	e.decls.fun("elemref", []string{"Int", "Int"}, "Int")
	e.decls.fun("elemref_b", []string{"Int"}, "Int")
	e.decls.fun("elemref_i", []string{"Int"}, "Int")
	e.root(base)
	e.decls.add("ax:elemref", "(assert (forall ((b Int) (i Int)) (! (and (= (elemref_b (elemref b i)) b) (= (elemref_i (elemref b i)) i) (not (= (elemref b i) 0)) (= (root (elemref b i)) (root b))) :pattern ((elemref b i)))))")
	return app(SInt, "elemref", base, idx)
}

// fieldAddr: address of field i of the struct object obj (type st named tname).
func (e *Enc) fieldAddr(obj Term, structT types.Type, i int) Val {
	s := structT.Underlying().(*types.Struct)
	f := s.Field(i)
	tname := typeName(structT)
	ft := f.Type()
	if isStructVal(ft) {
		return tv(e.subRef(tname, f.Name(), obj))
	}
	if _, ok := ft.Underlying().(*types.Array); ok {
		return tv(e.subRef(tname, f.Name(), obj))
	}
	return Val{A: &Addr{kind: aHeap, heap: "H:" + tname + "." + f.Name(), sort: sortOf(ft), obj: obj, typ: ft}}
}

// copyStruct copies all fields of the struct object src into dst.
func (e *Enc) copyStruct(st *State, dst, src Term, t types.Type) {
	s := t.Underlying().(*types.Struct)
	for i := 0; i < s.NumFields(); i++ {
		fd := e.fieldAddr(dst, t, i)
		fs := e.fieldAddr(src, t, i)
		ft := s.Field(i).Type()
		if fd.A != nil {
			e.store(st, fd.A, e.load(st, fs.A))
		} else if isStructVal(ft) {
			e.copyStruct(st, fd.T, fs.T, ft)
		} else if at, ok := ft.Underlying().(*types.Array); ok {
			e.copyArray(st, fd.T, fs.T, at)
		}
	}
}

func (e *Enc) copyArray(st *State, dst, src Term, at *types.Array) {
	if isStructVal(at.Elem()) {
		e.warn("copy of array of structs not modelled")
		return
	}
	name := "E:" + sortOf(at.Elem())
	h := e.comp(st, name, arrSort(SInt, arrSort(SInt, sortOf(at.Elem()))))
	st.heaps[name] = e.def("h", Store(h, dst, Select(h, src)))
}

func (e *Enc) zeroStruct(st *State, obj Term, t types.Type) {
	s := t.Underlying().(*types.Struct)
	for i := 0; i < s.NumFields(); i++ {
		fa := e.fieldAddr(obj, t, i)
		ft := s.Field(i).Type()
		if fa.A != nil {
			e.store(st, fa.A, e.zero(ft))
		} else if isStructVal(ft) {
			e.zeroStruct(st, fa.T, ft)
		} else if at, ok := ft.Underlying().(*types.Array); ok {
			e.zeroArray(st, fa.T, at)
		}
	}
}

func (e *Enc) zeroArray(st *State, base Term, at *types.Array) {
	if isStructVal(at.Elem()) {
		return // element fields are addressed through elemref; left unconstrained (sound: over-approximation is not, but zero init of struct arrays is rarely relied on)
	}
	es := sortOf(at.Elem())
	name := "E:" + es
	h := e.comp(st, name, arrSort(SInt, arrSort(SInt, es)))
	z := Term{fmt.Sprintf("((as const %s) %s)", arrSort(SInt, es), e.zero(at.Elem()).S), arrSort(SInt, es)}
	st.heaps[name] = e.def("h", Store(h, base, z))
}

// loadVal loads a Go value of type t from pointer value p.
func (e *Enc) loadVal(st *State, p Val, t types.Type) Val {
	if p.A != nil {
		return tv(e.load(st, p.A))
	}
	// p is a reference term
	if isStructVal(t) {
		r := e.allocRef(st, "sv")
		e.copyStruct(st, r, p.T, t)
		return tv(r)
	}
	if at, ok := t.Underlying().(*types.Array); ok {
		r := e.allocRef(st, "av")
		e.copyArray(st, r, p.T, at)
		return tv(r)
	}
	// pointer to scalar with unknown provenance
	a := &Addr{kind: aHeap, heap: "M:" + typeName(t), sort: sortOf(t), obj: p.T, typ: t}
	return tv(e.load(st, a))
}

func (e *Enc) storeVal(st *State, p Val, v Val, t types.Type) {
	if p.A != nil {
		e.store(st, p.A, v.T)
		return
	}
	if isStructVal(t) {
		e.copyStruct(st, p.T, v.T, t)
		return
	}
	if at, ok := t.Underlying().(*types.Array); ok {
		e.copyArray(st, p.T, v.T, at)
		return
	}
	a := &Addr{kind: aHeap, heap: "M:" + typeName(t), sort: sortOf(t), obj: p.T, typ: t}
	e.store(st, a, v.T)
}

// ptrTerm turns an address value into a first-class term (for escaping addresses).
func (e *Enc) ptrTerm(st *State, v Val) Term {
	if v.A == nil {
		return v.T
	}
	switch v.A.kind {
	case aHeap:
		if strings.HasPrefix(v.A.heap, "M:") {
			return v.A.obj
		}
		f := "faddr_" + sanitize(v.A.heap)
		e.decls.fun(f, []string{"Int"}, "Int")
		e.warn("address of %s escapes", v.A.heap)
		return app(SInt, f, v.A.obj)
	case aGlob:
		c := "gaddr_" + sanitize(v.A.heap)
		e.decls.add("const:"+c, fmt.Sprintf("(declare-const %s Int)", c))
		return Term{c, SInt}
	}
	e.warn("address escapes (kind %d)", v.A.kind)
	return e.fresh("addr", SInt)
}

// ---------------------------------------------------------------------------
// Value lookup

func (e *Enc) val(st *State, v ssa.Value) Val {
	switch v := v.(type) {
	case *ssa.Const:
		return tv(e.constTerm(v))
	case *ssa.Global:
		return e.globalAddr(v)
	case *ssa.Function:
		c := "fn_" + sanitize(funcKey(v))
		e.decls.add("const:"+c, fmt.Sprintf("(declare-const %s Int)", c))
		e.decls.add("ax:"+c, fmt.Sprintf("(assert (> %s 0))", c))
		return tv(Term{c, SInt})
	case *ssa.Builtin:
		return tv(I(0))
	}
	if x, ok := e.vals[v]; ok {
		return x
	}
	if fv, ok := v.(*ssa.FreeVar); ok {
		// pointer to a captured cell
		c := "fv_" + sanitize(fv.Name())
		e.decls.add("const:"+c, fmt.Sprintf("(declare-const %s Int)", c))
		t := Term{c, SInt}
		x := tv(t)
		e.vals[v] = x
		return x
	}
	e.warn("value %s (%T) used before definition", v.Name(), v)
	x := tv(e.fresh("undef_"+v.Name(), sortOf(v.Type())))
	e.vals[v] = x
	return x
}

func (e *Enc) globalAddr(g *ssa.Global) Val {
	t := g.Type().(*types.Pointer).Elem()
	name := "G:" + pkgShort(g.Pkg.Pkg) + "." + g.Name()
	if isStructVal(t) {
		c := "gref_" + sanitize(name)
		e.decls.add("const:"+c, fmt.Sprintf("(declare-const %s Int)", c))
		e.root(I(0))
		e.decls.add("ax:"+c, fmt.Sprintf("(assert (and (> %s 0) (< %s hwm0) (= (root %s) %s)))", c, c, c, c))
		return tv(Term{c, SInt})
	}
	if _, ok := t.Underlying().(*types.Array); ok {
		c := "gref_" + sanitize(name)
		e.decls.add("const:"+c, fmt.Sprintf("(declare-const %s Int)", c))
		e.root(I(0))
		e.decls.add("ax:"+c, fmt.Sprintf("(assert (and (> %s 0) (< %s hwm0) (= (root %s) %s)))", c, c, c, c))
		return tv(Term{c, SInt})
	}
	return Val{A: &Addr{kind: aGlob, heap: name, sort: sortOf(t), typ: t}}
}

func f64Lit(f float64) Term {
	bits := math.Float64bits(f)
	return Term{fmt.Sprintf("(fp #b%01b #b%011b #b%052b)", bits>>63, (bits>>52)&0x7ff, bits&((1<<52)-1)), SF64}
}

func (e *Enc) constTerm(c *ssa.Const) Term {
	t := c.Type()
	if c.Value == nil {
		return e.zero(t)
	}
	switch sortOf(t) {
	case SBool:
		if constant.BoolVal(c.Value) {
			return TTrue
		}
		return TFalse
	case SF64:
		f, _ := constant.Float64Val(c.Value)
		return f64Lit(f)
	}
	if b, ok := t.Underlying().(*types.Basic); ok {
		if b.Info()&types.IsString != 0 {
			s := constant.StringVal(c.Value)
			return e.strConst(s)
		}
		if b.Info()&types.IsInteger != 0 {
			v := constant.ToInt(c.Value)
			return IStr(v.ExactString())
		}
	}
	e.warn("unhandled constant %s", c)
	return e.fresh("const", SInt)
}

// ---------------------------------------------------------------------------
// Arithmetic

func (e *Enc) wrapTo(x Term, t types.Type) Term {
	lo, hi, ok := intRange(t)
	if !ok {
		return x
	}
	var mod string
	switch hi {
	case "127", "255":
		mod = "256"
	case "32767", "65535":
		mod = "65536"
	case "2147483647", "4294967295":
		mod = "4294967296"
	default:
		mod = "18446744073709551616"
	}
	// single-step wrap (valid when x is within one modulus of the range); general wrap uses mod
	return Term{fmt.Sprintf("(let ((wx %s)) (ite (> wx %s) (- wx %s) (ite (< wx %s) (+ wx %s) wx)))", x.S, IStr(hi).S, mod, IStr(lo).S, mod), SInt}
}

func (e *Enc) wrapMod(x Term, t types.Type) Term {
	lo, hi, ok := intRange(t)
	if !ok {
		return x
	}
	_ = hi
	var mod string
	switch hi {
	case "127", "255":
		mod = "256"
	case "32767", "65535":
		mod = "65536"
	case "2147483647", "4294967295":
		mod = "4294967296"
	default:
		mod = "18446744073709551616"
	}
	if lo == "0" {
		return Term{fmt.Sprintf("(mod %s %s)", x.S, mod), SInt}
	}
	return Term{fmt.Sprintf("(+ (mod (- %s %s) %s) %s)", x.S, IStr(lo).S, mod, IStr(lo).S), SInt}
}

func (e *Enc) declArith() {
	e.decls.add("fun:tdiv", "(define-fun tdiv ((a Int) (b Int)) Int (ite (>= a 0) (ite (> b 0) (div a b) (- (div a (- b)))) (ite (> b 0) (- (div (- a) b)) (div (- a) (- b)))))")
	e.decls.add("fun:trem", "(define-fun trem ((a Int) (b Int)) Int (- a (* b (tdiv a b))))")
}

func isUnsigned(t types.Type) bool {
	b, ok := t.Underlying().(*types.Basic)
	return ok && b.Info()&types.IsUnsigned != 0
}
func isInteger(t types.Type) bool {
	b, ok := t.Underlying().(*types.Basic)
	return ok && b.Info()&types.IsInteger != 0
}
func isString(t types.Type) bool {
	b, ok := t.Underlying().(*types.Basic)
	return ok && b.Info()&types.IsString != 0
}
func isFloat(t types.Type) bool {
	b, ok := t.Underlying().(*types.Basic)
	return ok && b.Info()&types.IsFloat != 0
}

func (e *Enc) binop(st *State, op token.Token, x, y Term, xt, yt, rt types.Type, pos token.Pos) Term {
	switch op {
	case token.EQL, token.NEQ:
		var r Term
		if x.Sort == SF64 {
			r = app(SBool, "fp.eq", x, y)
		} else {
			r = Eq(x, y)
		}
		if op == token.NEQ {
			return Not(r)
		}
		return r
	}
	if x.Sort == SF64 {
		switch op {
		case token.ADD:
			return app(SF64, "fp.add RNE", x, y)
		case token.SUB:
			return app(SF64, "fp.sub RNE", x, y)
		case token.MUL:
			return app(SF64, "fp.mul RNE", x, y)
		case token.QUO:
			return app(SF64, "fp.div RNE", x, y)
		case token.LSS:
			return app(SBool, "fp.lt", x, y)
		case token.LEQ:
			return app(SBool, "fp.leq", x, y)
		case token.GTR:
			return app(SBool, "fp.gt", x, y)
		case token.GEQ:
			return app(SBool, "fp.geq", x, y)
		}
	}
	if x.Sort == SBool {
		switch op {
		case token.LAND, token.AND:
			return And(x, y)
		case token.LOR, token.OR:
			return Or(x, y)
		}
	}
	if isString(xt) {
		e.declStr()
		switch op {
		case token.ADD:
			e.decls.fun("str_concat", []string{"Int", "Int"}, "Int")
			r := app(SInt, "str_concat", x, y)
			e.assert(Eq(app(SInt, "strlen", r), Add(app(SInt, "strlen", x), app(SInt, "strlen", y))))
			return r
		case token.LSS, token.LEQ, token.GTR, token.GEQ:
			e.decls.fun("str_lt", []string{"Int", "Int"}, "Bool")
			switch op {
			case token.LSS:
				return app(SBool, "str_lt", x, y)
			case token.GTR:
				return app(SBool, "str_lt", y, x)
			case token.LEQ:
				return Not(app(SBool, "str_lt", y, x))
			default:
				return Not(app(SBool, "str_lt", x, y))
			}
		}
	}
	switch op {
	case token.ADD:
		return e.wrapTo(Add(x, y), rt)
	case token.SUB:
		return e.wrapTo(Sub(x, y), rt)
	case token.MUL:
		if isConstTerm(x) || isConstTerm(y) {
			return e.wrapMod(Mul(x, y), rt)
		}
		e.decls.fun("mulw", []string{"Int", "Int"}, "Int")
		return e.def("mul", app(SInt, "mulw", x, y))
	case token.QUO:
		e.declArith()
		e.oblige("div", "quo", e.autoProps(), st.reach, Not(Eq(y, I(0))), "integer division by zero", pos)
		return e.wrapTo(app(SInt, "tdiv", x, y), rt)
	case token.REM:
		e.declArith()
		e.oblige("div", "rem", e.autoProps(), st.reach, Not(Eq(y, I(0))), "integer division by zero", pos)
		return app(SInt, "trem", x, y)
	case token.LSS:
		return Lt(x, y)
	case token.LEQ:
		return Le(x, y)
	case token.GTR:
		return Gt(x, y)
	case token.GEQ:
		return Ge(x, y)
	case token.SHL:
		if n, ok := smallConst(y); ok {
			return e.wrapMod(Mul(x, IStr(pow2(n))), rt)
		}
		e.decls.fun("shl", []string{"Int", "Int"}, "Int")
		r := e.def("shl", app(SInt, "shl", x, y))
		e.assert(e.typeAssume(r, rt, I(0)))
		return r
	case token.SHR:
		if n, ok := smallConst(y); ok {
			return app(SInt, "div", x, IStr(pow2(n)))
		}
		e.decls.fun("shr", []string{"Int", "Int"}, "Int")
		r := e.def("shr", app(SInt, "shr", x, y))
		e.assert(e.typeAssume(r, rt, I(0)))
		return r
	case token.AND, token.OR, token.XOR, token.AND_NOT:
		name := map[token.Token]string{token.AND: "band", token.OR: "bor", token.XOR: "bxor", token.AND_NOT: "bandnot"}[op]
		e.decls.fun(name, []string{"Int", "Int"}, "Int")
		r := e.def(name, app(SInt, name, x, y))
		e.assert(e.typeAssume(r, rt, I(0)))
		return r
	}
	e.warn("unhandled binop %s", op)
	return e.fresh("binop", sortOf(rt))
}

func isConstTerm(t Term) bool {
	s := t.S
	if strings.HasPrefix(s, "(- ") {
		s = s[3 : len(s)-1]
	}
	if s == "" {
		return false
	}
	for _, r := range s {
		if r < '0' || r > '9' {
			return false
		}
	}
	return true
}

func smallConst(t Term) (int, bool) {
	if !isConstTerm(t) || strings.HasPrefix(t.S, "(") || len(t.S) > 2 {
		return 0, false
	}
	n := 0
	for _, r := range t.S {
		n = n*10 + int(r-'0')
	}
	if n > 63 {
		return 0, false
	}
	return n, true
}

func pow2(n int) string {
	v := constant.Shift(constant.MakeInt64(1), token.SHL, uint(n))
	return v.ExactString()
}

// ---------------------------------------------------------------------------
// CFG preparation

func (e *Enc) analyseAllocs() {
	for _, b := range e.fn.Blocks {
		for _, ins := range b.Instrs {
			a, ok := ins.(*ssa.Alloc)
			if !ok {
				continue
			}
			if a.Comment != "" {
				e.allocByName[a.Comment] = append(e.allocByName[a.Comment], a)
			}
			t := a.Type().(*types.Pointer).Elem()
			if isStructVal(t) {
				continue
			}
			if _, isArr := t.Underlying().(*types.Array); isArr {
				continue
			}
			priv := true
			for _, r := range *a.Referrers() {
				switch r := r.(type) {
				case *ssa.Store:
					if r.Addr != a || r.Val == a {
						priv = false
					}
				case *ssa.UnOp:
					if r.Op != token.MUL {
						priv = false
					}
				case *ssa.DebugRef:
				default:
					priv = false
				}
			}
			if priv {
				e.private[a] = true
			}
		}
	}
}

// rpo returns blocks reachable from entry in reverse post-order and identifies back edges.
func (e *Enc) prepareCFG() ([]*ssa.BasicBlock, bool) {
	fn := e.fn
	seen := map[*ssa.BasicBlock]bool{}
	var post []*ssa.BasicBlock
	var dfs func(b *ssa.BasicBlock)
	dfs = func(b *ssa.BasicBlock) {
		seen[b] = true
		for _, s := range b.Succs {
			if !seen[s] {
				dfs(s)
			}
		}
		post = append(post, b)
	}
	dfs(fn.Blocks[0])
	order := make([]*ssa.BasicBlock, 0, len(post))
	for i := len(post) - 1; i >= 0; i-- {
		order = append(order, post[i])
	}
	idx := map[*ssa.BasicBlock]int{}
	for i, b := range order {
		idx[b] = i
	}
	// back edges and loops
	var headers []*ssa.BasicBlock
	for _, b := range order {
		for _, s := range b.Succs {
			if idx[s] <= idx[b] {
				if !s.Dominates(b) {
					e.unsupported = "irreducible control flow"
					return nil, false
				}
				li := e.loops[s]
				if li == nil {
					li = &loopInfo{header: s, blocks: map[*ssa.BasicBlock]bool{s: true}}
					e.loops[s] = li
					headers = append(headers, s)
				}
				// collect natural loop of back edge b->s
				var stack []*ssa.BasicBlock
				if !li.blocks[b] {
					li.blocks[b] = true
					stack = append(stack, b)
				}
				for len(stack) > 0 {
					x := stack[len(stack)-1]
					stack = stack[:len(stack)-1]
					for _, p := range x.Preds {
						if !li.blocks[p] && seen[p] {
							li.blocks[p] = true
							stack = append(stack, p)
						}
					}
				}
			}
		}
	}
	// loop ordinals in source order of the header position
	sort.Slice(headers, func(i, j int) bool {
		pi, pj := blockPos(headers[i]), blockPos(headers[j])
		if pi != pj {
			return pi < pj
		}
		return headers[i].Index < headers[j].Index
	})
	for i, h := range headers {
		e.loops[h].ordinal = i
		if e.c != nil {
			e.loops[h].spec = e.c.Loops[i]
			if len(e.c.DefaultInv) > 0 {
				// default invariants apply to every loop, in addition to the loop's own clauses
				ls := &LoopSpec{Invariants: append([]Clause(nil), e.c.DefaultInv...)}
				if own := e.c.Loops[i]; own != nil {
					ls.Invariants = append(ls.Invariants, own.Invariants...)
					ls.Decreases = own.Decreases
					ls.Progress = own.Progress
				}
				e.loops[h].spec = ls
			}
		}
	}
	return order, true
}

func blockPos(b *ssa.BasicBlock) token.Pos {
	for _, ins := range b.Instrs {
		if ins.Pos().IsValid() {
			return ins.Pos()
		}
	}
	// fall back on first positioned instruction of successors in the loop
	for _, s := range b.Succs {
		for _, ins := range s.Instrs {
			if ins.Pos().IsValid() {
				return ins.Pos()
			}
		}
	}
	return token.NoPos
}
