package main

import (
	"go/types"

	"golang.org/x/tools/go/ssa"
)

// traceState: per-activation ghost trace of direct calls to traced callees (filled in by trace.go).
type traceState struct{}

func (e *Enc) initTrace(st *State) {}

func (e *Enc) traceCallHook(st *State, c *ssa.CallCommon, key string, args []Val, sc *SCtx) {}

func (e *Enc) traceAfterHook(st *State, c *ssa.CallCommon, key string, r Val) {}

func (sc *SCtx) traceCall(x SCall) (Val, types.Type, error) { return Val{}, nil, nil }

func (sc *SCtx) traceBuiltin(x SCall) (Val, types.Type, bool, error) { return Val{}, nil, false, nil }

func (e *Enc) selectHook(st *State, ins *ssa.Select, idx Term) {}

func (e *Enc) lockAtReturn(st *State, ins *ssa.Return) {}
