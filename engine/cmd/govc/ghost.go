package main

import (
	"fmt"
	"go/types"
	"strings"

	"golang.org/x/tools/go/ssa"
)

// traceState: per-activation ghost trace of direct calls to traced callees (filled in by trace.go).
type traceState struct{}

func (e *Enc) initTrace(st *State) {}

func (e *Enc) traceCallHook(st *State, c *ssa.CallCommon, key string, args []Val, sc *SCtx) {}

func (e *Enc) traceAfterHook(st *State, c *ssa.CallCommon, key string, r Val) {}

func (sc *SCtx) traceCall(x SCall) (Val, types.Type, error) { return Val{}, nil, nil }

func (sc *SCtx) traceBuiltin(x SCall) (Val, types.Type, bool, error) {
	e := sc.e
	switch x.Fun {
	case "lockstate":
		// lockstate(e): 0 = not held by this activation, 1 = read-locked, 2 = write-locked
		v, t, err := sc.eval(x.Args[0])
		if err != nil {
			return Val{}, nil, true, err
		}
		m, ok := e.mutexOf(t, v.T)
		if !ok {
			return Val{}, nil, true, fmt.Errorf("lockstate(): %v has no guarded_by declaration", t)
		}
		return tv(Select(e.comp(sc.st, "X:held", arrSort(SInt, SInt)), m)), nil, true, nil
	case "lockaddr":
		v, t, err := sc.eval(x.Args[0])
		if err != nil {
			return Val{}, nil, true, err
		}
		m, ok := e.mutexOf(t, v.T)
		if !ok {
			return Val{}, nil, true, fmt.Errorf("lockaddr(): %v has no guarded_by declaration", t)
		}
		return tv(m), nil, true, nil
	case "heldmap":
		return tv(e.comp(sc.st, "X:held", arrSort(SInt, SInt))), nil, true, nil
	case "acq":
		// acq(expr): value of expr at the acquire of the critical section being closed
		if sc.acq == nil {
			return Val{}, nil, true, fmt.Errorf("acq() is only available in critical clauses")
		}
		n := *sc
		n.st = sc.acq
		v, t, err := n.eval(x.Args[0])
		return v, t, true, err
	}
	return Val{}, nil, false, nil
}

// selectHook: a select that contains a receive from ctx.Done() is a cancellation poll (C02):
// polls++ ; once a poll has fired every later poll fires (cancellation is monotone); fired' = fired || chosen.
func (e *Enc) selectHook(st *State, ins *ssa.Select, idx Term) {
	if !e.hasGhost("polls") || !e.hasGhost("fired") {
		return
	}
	for i, s := range ins.States {
		if s.Dir != types.RecvOnly {
			continue
		}
		call, ok := s.Chan.(*ssa.Call)
		if !ok || !call.Common().IsInvoke() || call.Common().Method.Name() != "Done" {
			continue
		}
		polls := e.comp(st, "X:polls", SInt)
		fired := e.comp(st, "X:fired", SBool)
		e.assume(st.reach, Imp(fired, Eq(idx, I(int64(i)))))
		st.heaps["X:polls"] = e.def("polls", Add(polls, I(1)))
		st.heaps["X:fired"] = e.def("fired", Or(fired, Eq(idx, I(int64(i)))))
		return
	}
}

func (e *Enc) hasGhost(name string) bool {
	for _, g := range e.P.Spec.Ghosts {
		if g.Name == name {
			return true
		}
	}
	return false
}

// ---------------------------------------------------------------------------
// Lock discipline (C13)

type guardDecl struct {
	structName string // e.g. env.Env
	mutexField string
	fields     []string
}

func (P *Prog) guardDecls() []guardDecl {
	var out []guardDecl
	for _, g := range P.Spec.Guarded {
		// "Env.rwMutex: values, types"   (struct of the declaring package)
		parts := strings.SplitN(g, ":", 2)
		if len(parts) != 2 {
			continue
		}
		lhs := strings.TrimSpace(parts[0])
		i := strings.LastIndex(lhs, ".")
		if i < 0 {
			continue
		}
		d := guardDecl{structName: lhs[:i], mutexField: lhs[i+1:]}
		for _, f := range strings.Split(parts[1], ",") {
			d.fields = append(d.fields, strings.TrimSpace(f))
		}
		out = append(out, d)
	}
	return out
}

// guardOfHeap: if heap (H:T.f) is guarded, the mutex heap name.
func (e *Enc) guardOfHeap(heap string) (string, bool) {
	for _, d := range e.P.guardDecls() {
		for _, f := range d.fields {
			if heap == "H:"+d.structName+"."+f {
				return "H:" + d.structName + "." + d.mutexField, true
			}
		}
	}
	return "", false
}

func (e *Enc) mutexTerm(mutexHeap string, obj Term) Term {
	f := "faddr_" + sanitize(mutexHeap)
	e.decls.fun(f, []string{"Int"}, "Int")
	e.decls.fun(f+"_inv", []string{"Int"}, "Int")
	e.decls.add("ax:inj:"+f, fmt.Sprintf("(assert (forall ((o Int)) (! (= (%s_inv (%s o)) o) :pattern ((%s o)))))", f, f, f))
	return app(SInt, f, obj)
}

func (e *Enc) mutexOf(t types.Type, obj Term) (Term, bool) {
	st, ok := structOf(t)
	if !ok {
		return Term{}, false
	}
	for _, d := range e.P.guardDecls() {
		if typeName(st) == d.structName {
			return e.mutexTerm("H:"+d.structName+"."+d.mutexField, obj), true
		}
	}
	return Term{}, false
}

var lockProps = []string{"C13"}

// lockAccess: obligation that the guarding mutex of obj is held in the right mode for an access to heap.
func (e *Enc) lockAccess(st *State, heap string, obj Term, write bool, what string) {
	mh, ok := e.guardOfHeap(heap)
	if !ok {
		return
	}
	// objects allocated by this activation are not yet shared
	held := Select(e.comp(st, "X:held", arrSort(SInt, SInt)), e.mutexTerm(mh, obj))
	var goal Term
	if write {
		goal = Or(Eq(held, I(2)), Ge(e.root(obj), e.pre.hwm))
	} else {
		goal = Or(Ge(held, I(1)), Ge(e.root(obj), e.pre.hwm))
	}
	mode := "read"
	if write {
		mode = "write"
	}
	e.oblige("lock", what, lockProps, st.reach, goal, fmt.Sprintf("%s of guarded %s without holding its lock (%s mode)", mode, strings.TrimPrefix(heap, "H:"), mode), 0)
}

// isLockCall recognises sync.RWMutex operations.
func lockOp(key string) string {
	switch key {
	case "(*sync.RWMutex).Lock":
		return "Lock"
	case "(*sync.RWMutex).Unlock":
		return "Unlock"
	case "(*sync.RWMutex).RLock":
		return "RLock"
	case "(*sync.RWMutex).RUnlock":
		return "RUnlock"
	}
	return ""
}

func (e *Enc) lockCall(st *State, op string, c *ssa.CallCommon, ins ssa.Instruction) {
	recv := e.val(st, c.Args[0])
	var m Term
	var obj Term
	var structName string
	if recv.A != nil && recv.A.kind == aHeap {
		m = e.mutexTerm(recv.A.heap, recv.A.obj)
		obj = recv.A.obj
		if i := strings.LastIndex(recv.A.heap, "."); i > 2 {
			structName = recv.A.heap[2:i]
		}
	} else {
		m = e.asTerm(st, recv)
	}
	hs := arrSort(SInt, SInt)
	held := e.comp(st, "X:held", hs)
	cur := Select(held, m)
	set := func(v int64) { st.heaps["X:held"] = e.def("held", Store(held, m, I(v))) }
	switch op {
	case "Lock", "RLock":
		e.oblige("lock", "acquire."+op, lockProps, st.reach, Eq(cur, I(0)), "lock acquired while this activation already holds it (self-deadlock)", ins.Pos())
		if op == "Lock" {
			set(2)
		} else {
			set(1)
		}
		e.sectionCount++
		k := e.sectionCount - 1
		e.compSort["X:section"] = SInt
		st.heaps["X:section"] = I(int64(k))
		if e.concMode && obj.S != "" {
			e.havocGuarded(st, structName, obj)
		}
		if e.acqStates == nil {
			e.acqStates = map[int]*State{}
		}
		e.acqStates[k] = st.clone()
	case "Unlock", "RUnlock":
		want := int64(2)
		if op == "RUnlock" {
			want = 1
		}
		e.oblige("lock", "release."+op, lockProps, st.reach, Eq(cur, I(want)), "unlock of a lock that is not held in that mode", ins.Pos())
		e.checkCritical(st, ins)
		set(0)
	}
}

// havocGuarded: another goroutine may have changed the guarded state between two critical sections.
func (e *Enc) havocGuarded(st *State, structName string, obj Term) {
	for _, d := range e.P.guardDecls() {
		if d.structName != structName {
			continue
		}
		stT, err := e.P.resolveType(shortType(structName), e.pkg)
		if err != nil {
			continue
		}
		s, ok := stT.Underlying().(*types.Struct)
		if !ok {
			continue
		}
		for _, fname := range d.fields {
			for i := 0; i < s.NumFields(); i++ {
				f := s.Field(i)
				if f.Name() != fname {
					continue
				}
				a := e.fieldAddr(obj, stT, i)
				if a.A == nil {
					continue
				}
				oldv := e.load(st, a.A)
				nv := e.fresh("conc_"+fname, a.A.sort)
				e.assume(st.reach, e.typeAssume(nv, f.Type(), st.hwm))
				e.store(st, a.A, nv)
				if mt, ok := f.Type().Underlying().(*types.Map); ok {
					ps := arrSort(SInt, arrSort(sortOf(mt.Key()), SBool))
					vs := arrSort(SInt, arrSort(sortOf(mt.Key()), sortOf(mt.Elem())))
					hp := e.comp(st, mapPHeap(mt), ps)
					hv := e.comp(st, mapVHeap(mt), vs)
					hp = Store(hp, oldv, e.fresh("conc_mp", arrSort(sortOf(mt.Key()), SBool)))
					hv = Store(hv, oldv, e.fresh("conc_mv", arrSort(sortOf(mt.Key()), sortOf(mt.Elem()))))
					st.heaps[mapPHeap(mt)] = e.def("h", hp)
					st.heaps[mapVHeap(mt)] = e.def("h", hv)
				}
			}
		}
	}
}

func shortType(structName string) string {
	// "env.Env" -> "env.Env" is resolvable through ByName; keep as is
	return structName
}

// checkCritical: the critical-section clauses of the contract, evaluated at a release.
func (e *Enc) checkCritical(st *State, ins ssa.Instruction) {
	if e.c == nil {
		return
	}
	sec := e.comp(st, "X:section", SInt)
	for k, cls := range e.c.Critical {
		acq := e.acqStates[k]
		if acq == nil {
			continue
		}
		for i, cl := range cls {
			sc := e.specCtx(st, e.pre)
			sc.acq = acq
			t, err := sc.evalBool(cl.Expr)
			if err != nil {
				e.unsupported = fmt.Sprintf("critical %d %q: %v", k, cl.Text, err)
				return
			}
			anchor := cl.Label
			if anchor == "" {
				anchor = fmt.Sprintf("section%d.%d", k, i)
			}
			e.oblige("critical", anchor, clauseProps(cl, lockProps), st.reach, Imp(Eq(sec, I(int64(k))), t), "critical section "+fmt.Sprint(k)+": "+cl.Text, ins.Pos())
		}
	}
}

func (e *Enc) lockAtReturn(st *State, ins *ssa.Return) {
	if _, ok := st.heaps["X:held"]; !ok {
		return
	}
	hs := arrSort(SInt, SInt)
	e.oblige("lock", "balanced", lockProps, st.reach, Eq(e.comp(st, "X:held", hs), e.comp(e.pre, "X:held", hs)), "every lock taken by the function is released on this exit", ins.Pos())
}
