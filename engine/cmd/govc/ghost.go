package main

import (
	"fmt"
	"go/types"
	"strconv"
	"strings"

	"golang.org/x/tools/go/ssa"
)

// Activation trace: for the function under verification, the sequence of its DIRECT calls to traced callees
// (callees whose contract has a "traced" clause): trCallee[k], trArg[k] (key argument at the call), trRes[k]
// (result after the call), k < trN. The trace is local to the activation: callees do not change it, and every
// function starts with an empty one. "Exactly once, in this order" is then a statement about trN and the arrays.
type traceState struct{ last Term }

var traceComps = []string{"X:trN", "X:trCallee", "X:trArg", "X:trRes", "X:trRes2", "X:trRes3"}

func (e *Enc) traceSort(name string) string {
	if name == "X:trN" {
		return SInt
	}
	return arrSort(SInt, SInt)
}

func (e *Enc) usesTrace() bool {
	for _, b := range e.fn.Blocks {
		for _, ins := range b.Instrs {
			if c, ok := ins.(ssa.CallInstruction); ok {
				if ct, key := e.calleeContract(c.Common()); ct != nil && e.tracedHere(ct, key) {
					return true
				}
			}
		}
	}
	return false
}

// tracedHere: calls to the callee are recorded in this activation's trace.
func (e *Enc) tracedHere(ct *Contract, key string) bool {
	if ct == nil || ct.TracedArg == nil {
		return false
	}
	if !ct.TracedOptIn {
		return true
	}
	if e.c == nil {
		return false
	}
	for _, t := range e.c.Traces {
		if strings.HasSuffix(key, t) {
			return true
		}
	}
	return false
}

func (e *Enc) initTrace(st *State) {
	if e.fn == nil || !e.usesTrace() {
		return
	}
	e.trace = &traceState{}
	for _, n := range traceComps {
		e.compSort[n] = e.traceSort(n)
	}
	st.heaps["X:trN"] = I(0)
}

func (e *Enc) traceCallHook(st *State, c *ssa.CallCommon, key string, args []Val, sc *SCtx) {
	if e.trace == nil || sc == nil {
		return
	}
	ct := e.P.Spec.Contracts[key]
	if !e.tracedHere(ct, key) {
		return
	}
	v, _, err := sc.eval(ct.TracedArg)
	if err != nil {
		e.unsupported = "traced argument of " + key + ": " + err.Error()
		return
	}
	k := e.def("trk", e.comp(st, "X:trN", SInt))
	as := arrSort(SInt, SInt)
	st.heaps["X:trCallee"] = e.def("trc", Store(e.comp(st, "X:trCallee", as), k, I(int64(funcID(key)))))
	st.heaps["X:trArg"] = e.def("tra", Store(e.comp(st, "X:trArg", as), k, e.asTerm(st, v)))
	st.heaps["X:trN"] = e.def("trn", Add(k, I(1)))
	e.trace.last = k
}

func (e *Enc) traceAfterHook(st *State, c *ssa.CallCommon, key string, r Val) {}

// traceAfter records the result of a traced call (sc: callee context after the call, results bound).
func (e *Enc) traceAfter(st *State, key string, sc *SCtx) {
	if e.trace == nil {
		return
	}
	ct := e.P.Spec.Contracts[key]
	if !e.tracedHere(ct, key) || ct.TracedRes == nil {
		return
	}
	v, _, err := sc.eval(ct.TracedRes)
	if err != nil {
		e.unsupported = "traced result of " + key + ": " + err.Error()
		return
	}
	as := arrSort(SInt, SInt)
	st.heaps["X:trRes"] = e.def("trr", Store(e.comp(st, "X:trRes", as), e.trace.last, e.asTerm(st, v)))
	if ct.TracedRes2 != nil {
		v2, _, err := sc.eval(ct.TracedRes2)
		if err != nil {
			e.unsupported = "traced result of " + key + ": " + err.Error()
			return
		}
		st.heaps["X:trRes2"] = e.def("trr2", Store(e.comp(st, "X:trRes2", as), e.trace.last, e.asTerm(st, v2)))
	}
	if ct.TracedRes3 != nil {
		v3, _, err := sc.eval(ct.TracedRes3)
		if err != nil {
			e.unsupported = "traced result of " + key + ": " + err.Error()
			return
		}
		st.heaps["X:trRes3"] = e.def("trr3", Store(e.comp(st, "X:trRes3", as), e.trace.last, e.asTerm(st, v3)))
	}
}

func (sc *SCtx) traceCall(x SCall) (Val, types.Type, error) { return Val{}, nil, nil }

// resolveFuncName: "walkExpr" -> "astutil.walkExpr" (package of the contract), or a full key.
func (sc *SCtx) resolveFuncName(name string) (string, error) {
	e := sc.e
	if _, ok := e.P.Spec.Contracts[name]; ok {
		return name, nil
	}
	if sc.pkg != nil {
		k := pkgShort(sc.pkg) + "." + name
		if _, ok := e.P.Spec.Contracts[k]; ok {
			return k, nil
		}
	}
	if e.pkg != nil {
		k := pkgShort(e.pkg) + "." + name
		if _, ok := e.P.Spec.Contracts[k]; ok {
			return k, nil
		}
	}
	// a method name: unique contract key of the package ending in ").name"
	prefix := ""
	if sc.pkg != nil {
		prefix = pkgShort(sc.pkg) + "."
	}
	found := ""
	for k := range e.P.Spec.Contracts {
		if strings.HasPrefix(k, prefix) && strings.HasSuffix(k, ")."+name) {
			if found != "" && found != k {
				return "", fmt.Errorf("ambiguous function %q in trace expression", name)
			}
			found = k
		}
	}
	if found != "" {
		return found, nil
	}
	return "", fmt.Errorf("unknown function %q in trace expression", name)
}

func (sc *SCtx) traceBuiltin(x SCall) (Val, types.Type, bool, error) {
	e := sc.e
	as := arrSort(SInt, SInt)
	switch x.Fun {
	case "ncalls":
		return tv(e.comp(sc.st, "X:trN", SInt)), nil, true, nil
	case "calleeIs":
		j, _, err := sc.eval(x.Args[0])
		if err != nil {
			return Val{}, nil, true, err
		}
		sl, ok := x.Args[1].(SStrLit)
		if !ok {
			return Val{}, nil, true, fmt.Errorf("calleeIs(j, \"name\")")
		}
		key, err := sc.resolveFuncName(sl.Val)
		if err != nil {
			return Val{}, nil, true, err
		}
		return tv(Eq(Select(e.comp(sc.st, "X:trCallee", as), j.T), I(int64(funcID(key))))), types.Typ[types.Bool], true, nil
	case "arg", "res", "res2", "res3":
		j, _, err := sc.eval(x.Args[0])
		if err != nil {
			return Val{}, nil, true, err
		}
		name := "X:trArg"
		if x.Fun == "res" {
			name = "X:trRes"
		} else if x.Fun == "res2" {
			name = "X:trRes2"
		} else if x.Fun == "res3" {
			name = "X:trRes3"
		}
		return tv(Select(e.comp(sc.st, name, as), j.T)), nil, true, nil
	case "childrenWalked", "knownNode":
		// childrenWalked(n, "ast.Stmt"): for every concrete node type T of package ast implementing the interface,
		// if n is a *T then every child field of T (read off the type declaration with go/types) was walked.
		// knownNode(n, I): n is nil or one of those concrete types (the trees the parser builds).
		v, _, err := sc.eval(x.Args[0])
		if err != nil {
			return Val{}, nil, true, err
		}
		sl, ok := x.Args[1].(SStrLit)
		if !ok {
			return Val{}, nil, true, fmt.Errorf("%s(n, \"ast.Stmt\")", x.Fun)
		}
		kind := strings.TrimPrefix(sl.Val, "ast.")
		if kind != "Expr" && kind != "Stmt" && kind != "Operator" {
			return Val{}, nil, true, fmt.Errorf("%s: ast.Expr, ast.Stmt or ast.Operator expected", x.Fun)
		}
		t, err := sc.childrenFormula(x.Fun == "knownNode", v.T, kind)
		return tv(t), types.Typ[types.Bool], true, err
	case "lockstate":
		// lockstate(e): 0 = not held by this activation, 1 = read-locked, 2 = write-locked
		v, t, err := sc.eval(x.Args[0])
		if err != nil {
			return Val{}, nil, true, err
		}
		m, ok := e.mutexOf(t, v.T)
		if !ok {
			return Val{}, nil, true, fmt.Errorf("lockstate(): %v has no guarded_by declaration", t)
		}
		return tv(Select(e.comp(sc.st, "X:held", arrSort(SInt, SInt)), m)), nil, true, nil
	case "same":
		// bit-for-bit equality (for floats: NaN same NaN, +0 not same -0)
		a, _, err := sc.eval(x.Args[0])
		if err != nil {
			return Val{}, nil, true, err
		}
		b, _, err := sc.eval(x.Args[1])
		if err != nil {
			return Val{}, nil, true, err
		}
		if a.T.Sort != b.T.Sort {
			return Val{}, nil, true, fmt.Errorf("same(): sort mismatch")
		}
		return tv(app(SBool, "=", a.T, b.T)), types.Typ[types.Bool], true, nil
	case "wrap64":
		a, _, err := sc.eval(x.Args[0])
		if err != nil {
			return Val{}, nil, true, err
		}
		return tv(e.wrapMod(a.T, types.Typ[types.Int64])), types.Typ[types.Int64], true, nil
	case "fneg":
		a, _, err := sc.eval(x.Args[0])
		if err != nil {
			return Val{}, nil, true, err
		}
		return tv(app(SF64, "fp.neg", a.T)), types.Typ[types.Float64], true, nil
	case "strOfRune":
		// strOfRune(c): Go's string(rune(c)) - the same uninterpreted function the executor uses for the conversion
		if len(x.Args) != 1 {
			return Val{}, nil, true, fmt.Errorf("strOfRune(c) expects one argument")
		}
		a, _, err := sc.eval(x.Args[0])
		if err != nil {
			return Val{}, nil, true, err
		}
		e.declStr()
		e.decls.fun("str_of_rune", []string{"Int"}, "Int")
		return tv(app(SInt, "str_of_rune", a.T)), types.Typ[types.String], true, nil
	case "rangekeys":
		// rangekeys(n, k): key k was present in the map when the n-th map iteration of this function started
		if len(x.Args) != 2 {
			return Val{}, nil, true, fmt.Errorf("rangekeys(n, k) expects two arguments")
		}
		nl, ok := x.Args[0].(SNum)
		if !ok {
			return Val{}, nil, true, fmt.Errorf("rangekeys(n, k): n must be a literal")
		}
		n, _ := strconv.Atoi(nl.Val)
		var rs []*ssa.Range
		if e.fn != nil {
			for _, b := range e.fn.Blocks {
				for _, ins := range b.Instrs {
					if r, ok := ins.(*ssa.Range); ok {
						if _, isMap := r.X.Type().Underlying().(*types.Map); isMap {
							rs = append(rs, r)
						}
					}
				}
			}
		}
		if n < 0 || n >= len(rs) {
			return Val{}, nil, true, fmt.Errorf("rangekeys(%d, k): the function has %d map iterations", n, len(rs))
		}
		start, has := e.rangeStart[rs[n]]
		if !has {
			return Val{}, nil, true, fmt.Errorf("rangekeys(%d, k): the iteration has not started at this point", n)
		}
		k, _, err := sc.eval(x.Args[1])
		if err != nil {
			return Val{}, nil, true, err
		}
		return tv(Select(start, e.asTerm(sc.st, k))), types.Typ[types.Bool], true, nil
	case "visited":
		// visited(n, k): key k has been produced by the n-th map iteration (range over a map, in block order) of this function
		if len(x.Args) != 2 {
			return Val{}, nil, true, fmt.Errorf("visited(n, k) expects two arguments")
		}
		nl, ok := x.Args[0].(SNum)
		if !ok {
			return Val{}, nil, true, fmt.Errorf("visited(n, k): n must be a literal")
		}
		n, _ := strconv.Atoi(nl.Val)
		var rs []*ssa.Range
		if e.fn != nil {
			for _, b := range e.fn.Blocks {
				for _, ins := range b.Instrs {
					if r, ok := ins.(*ssa.Range); ok {
						if _, isMap := r.X.Type().Underlying().(*types.Map); isMap {
							rs = append(rs, r)
						}
					}
				}
			}
		}
		if n < 0 || n >= len(rs) {
			return Val{}, nil, true, fmt.Errorf("visited(%d, k): the function has %d map iterations", n, len(rs))
		}
		k, _, err := sc.eval(x.Args[1])
		if err != nil {
			return Val{}, nil, true, err
		}
		mt := rs[n].X.Type().Underlying().(*types.Map)
		name := visitedComp(rs[n])
		srt := arrSort(sortOf(mt.Key()), SBool)
		if _, ok := e.compSort[name]; !ok {
			e.compSort[name] = srt
		}
		return tv(Select(e.comp(sc.st, name, srt), e.asTerm(sc.st, k))), types.Typ[types.Bool], true, nil
	case "f64":
		// f64(n): the float64 constant with the integer value n (a literal, not a conversion)
		n, ok := x.Args[0].(SNum)
		if !ok || len(x.Args) != 1 {
			return Val{}, nil, true, fmt.Errorf("f64(n) expects one integer literal")
		}
		f, err := strconv.ParseFloat(n.Val, 64)
		if err != nil {
			return Val{}, nil, true, err
		}
		return tv(f64Lit(f)), types.Typ[types.Float64], true, nil
	case "i2f", "f2i", "band", "bor", "bxor", "shl", "shr", "mulw", "concat", "substr", "tdiv", "trem", "fadd", "fsub", "fmul", "fdiv", "flt", "fle", "feq":
		var as2 []Term
		for _, a := range x.Args {
			v, _, err := sc.eval(a)
			if err != nil {
				return Val{}, nil, true, err
			}
			as2 = append(as2, v.T)
		}
		switch x.Fun {
		case "i2f":
			e.decls.fun("i2f", []string{"Int"}, SF64)
			return tv(app(SF64, "i2f", as2...)), types.Typ[types.Float64], true, nil
		case "f2i":
			e.decls.fun("f2i", []string{SF64}, "Int")
			return tv(app(SInt, "f2i", as2...)), nil, true, nil
		case "band", "bor", "bxor", "shl", "shr", "mulw":
			e.decls.fun(x.Fun, []string{"Int", "Int"}, "Int")
			return tv(app(SInt, x.Fun, as2...)), nil, true, nil
		case "substr":
			// substr(s, lo, hi): the Go slice expression s[lo:hi] on a string (the same term the executor builds)
			e.declStr()
			e.decls.fun("substr", []string{"Int", "Int", "Int"}, "Int")
			return tv(app(SInt, "substr", as2...)), types.Typ[types.String], true, nil
		case "concat":
			e.declStr()
			e.decls.fun("str_concat", []string{"Int", "Int"}, "Int")
			return tv(app(SInt, "str_concat", as2...)), types.Typ[types.String], true, nil
		case "tdiv", "trem":
			e.declArith()
			return tv(app(SInt, x.Fun, as2...)), nil, true, nil
		case "fadd", "fsub", "fmul", "fdiv":
			op := map[string]string{"fadd": "fp.add RNE", "fsub": "fp.sub RNE", "fmul": "fp.mul RNE", "fdiv": "fp.div RNE"}[x.Fun]
			return tv(app(SF64, op, as2...)), types.Typ[types.Float64], true, nil
		default:
			op := map[string]string{"flt": "fp.lt", "fle": "fp.leq", "feq": "fp.eq"}[x.Fun]
			return tv(app(SBool, op, as2...)), types.Typ[types.Bool], true, nil
		}
	case "lockaddr":
		v, t, err := sc.eval(x.Args[0])
		if err != nil {
			return Val{}, nil, true, err
		}
		m, ok := e.mutexOf(t, v.T)
		if !ok {
			return Val{}, nil, true, fmt.Errorf("lockaddr(): %v has no guarded_by declaration", t)
		}
		return tv(m), nil, true, nil
	case "heldmap":
		return tv(e.comp(sc.st, "X:held", arrSort(SInt, SInt))), nil, true, nil
	case "acq":
		// acq(expr): value of expr at the acquire of the critical section being closed
		if sc.acq == nil {
			return Val{}, nil, true, fmt.Errorf("acq() is only available in critical clauses")
		}
		n := *sc
		n.st = sc.acq
		v, t, err := n.eval(x.Args[0])
		return v, t, true, err
	}
	return Val{}, nil, false, nil
}

// selectHook: a select that contains a receive from ctx.Done() is a cancellation poll (C02):
// polls++ ; once a poll has fired every later poll fires (cancellation is monotone); fired' = fired || chosen.
func (e *Enc) selectHook(st *State, ins *ssa.Select, idx Term) {
	if !e.hasGhost("polls") || !e.hasGhost("fired") {
		return
	}
	for i, s := range ins.States {
		if s.Dir != types.RecvOnly {
			continue
		}
		call, ok := s.Chan.(*ssa.Call)
		if !ok || !call.Common().IsInvoke() || call.Common().Method.Name() != "Done" {
			continue
		}
		polls := e.comp(st, "X:polls", SInt)
		fired := e.comp(st, "X:fired", SBool)
		e.assume(st.reach, Imp(fired, Eq(idx, I(int64(i)))))
		st.heaps["X:polls"] = e.def("polls", Add(polls, I(1)))
		st.heaps["X:fired"] = e.def("fired", Or(fired, Eq(idx, I(int64(i)))))
		return
	}
}

func (e *Enc) hasGhost(name string) bool {
	for _, g := range e.P.Spec.Ghosts {
		if g.Name == name {
			return true
		}
	}
	return false
}

// ---------------------------------------------------------------------------
// Lock discipline (C13)

type guardDecl struct {
	structName string // e.g. env.Env
	mutexField string
	fields     []string
}

func (P *Prog) guardDecls() []guardDecl {
	var out []guardDecl
	for _, g := range P.Spec.Guarded {
		// "Env.rwMutex: values, types"   (struct of the declaring package)
		parts := strings.SplitN(g, ":", 2)
		if len(parts) != 2 {
			continue
		}
		lhs := strings.TrimSpace(parts[0])
		i := strings.LastIndex(lhs, ".")
		if i < 0 {
			continue
		}
		d := guardDecl{structName: lhs[:i], mutexField: lhs[i+1:]}
		for _, f := range strings.Split(parts[1], ",") {
			d.fields = append(d.fields, strings.TrimSpace(f))
		}
		out = append(out, d)
	}
	return out
}

// guardOfHeap: if heap (H:T.f) is guarded, the mutex heap name.
func (e *Enc) guardOfHeap(heap string) (string, bool) {
	for _, d := range e.P.guardDecls() {
		for _, f := range d.fields {
			if heap == "H:"+d.structName+"."+f {
				return "H:" + d.structName + "." + d.mutexField, true
			}
		}
	}
	return "", false
}

func (e *Enc) mutexTerm(mutexHeap string, obj Term) Term {
	f := "faddr_" + sanitize(mutexHeap)
	e.decls.fun(f, []string{"Int"}, "Int")
	e.decls.fun(f+"_inv", []string{"Int"}, "Int")
	e.decls.add("ax:inj:"+f, fmt.Sprintf("(assert (forall ((o Int)) (! (= (%s_inv (%s o)) o) :pattern ((%s o)))))", f, f, f))
	return app(SInt, f, obj)
}

func (e *Enc) mutexOf(t types.Type, obj Term) (Term, bool) {
	st, ok := structOf(t)
	if !ok {
		return Term{}, false
	}
	for _, d := range e.P.guardDecls() {
		if typeName(st) == d.structName {
			return e.mutexTerm("H:"+d.structName+"."+d.mutexField, obj), true
		}
	}
	return Term{}, false
}

var lockProps = []string{"C13"}

// lockAccess: obligation that the guarding mutex of obj is held in the right mode for an access to heap.
func (e *Enc) lockAccess(st *State, heap string, obj Term, write bool, what string) {
	mh, ok := e.guardOfHeap(heap)
	if !ok {
		return
	}
	// objects allocated by this activation are not yet shared
	held := Select(e.comp(st, "X:held", arrSort(SInt, SInt)), e.mutexTerm(mh, obj))
	var goal Term
	if write {
		goal = Or(Eq(held, I(2)), Ge(e.root(obj), e.pre.hwm))
	} else {
		goal = Or(Ge(held, I(1)), Ge(e.root(obj), e.pre.hwm))
	}
	mode := "read"
	if write {
		mode = "write"
	}
	e.oblige("lock", what, lockProps, st.reach, goal, fmt.Sprintf("%s of guarded %s without holding its lock (%s mode)", mode, strings.TrimPrefix(heap, "H:"), mode), 0)
}

// isLockCall recognises sync.RWMutex operations.
func lockOp(key string) string {
	switch key {
	case "(*sync.RWMutex).Lock":
		return "Lock"
	case "(*sync.RWMutex).Unlock":
		return "Unlock"
	case "(*sync.RWMutex).RLock":
		return "RLock"
	case "(*sync.RWMutex).RUnlock":
		return "RUnlock"
	}
	return ""
}

func (e *Enc) lockCall(st *State, op string, c *ssa.CallCommon, ins ssa.Instruction) {
	recv := e.val(st, c.Args[0])
	var m Term
	var obj Term
	var structName string
	if recv.A != nil && recv.A.kind == aHeap {
		m = e.mutexTerm(recv.A.heap, recv.A.obj)
		obj = recv.A.obj
		if i := strings.LastIndex(recv.A.heap, "."); i > 2 {
			structName = recv.A.heap[2:i]
		}
	} else {
		m = e.asTerm(st, recv)
	}
	hs := arrSort(SInt, SInt)
	held := e.comp(st, "X:held", hs)
	cur := Select(held, m)
	set := func(v int64) { st.heaps["X:held"] = e.def("held", Store(held, m, I(v))) }
	switch op {
	case "Lock", "RLock":
		e.oblige("lock", "acquire."+op, lockProps, st.reach, Eq(cur, I(0)), "lock acquired while this activation already holds it (self-deadlock)", ins.Pos())
		if op == "Lock" {
			set(2)
		} else {
			set(1)
		}
		e.sectionCount++
		k := e.sectionCount - 1
		e.compSort["X:section"] = SInt
		st.heaps["X:section"] = I(int64(k))
		if e.concMode && obj.S != "" {
			e.havocGuarded(st, structName, obj)
		}
		if e.acqStates == nil {
			e.acqStates = map[int]*State{}
		}
		e.acqStates[k] = st.clone()
	case "Unlock", "RUnlock":
		want := int64(2)
		if op == "RUnlock" {
			want = 1
		}
		e.oblige("lock", "release."+op, lockProps, st.reach, Eq(cur, I(want)), "unlock of a lock that is not held in that mode", ins.Pos())
		e.checkCritical(st, ins)
		set(0)
	}
}

// havocGuarded: another goroutine may have changed the guarded state between two critical sections.
func (e *Enc) havocGuarded(st *State, structName string, obj Term) {
	for _, d := range e.P.guardDecls() {
		if d.structName != structName {
			continue
		}
		stT, err := e.P.resolveType(shortType(structName), e.pkg)
		if err != nil {
			continue
		}
		s, ok := stT.Underlying().(*types.Struct)
		if !ok {
			continue
		}
		for _, fname := range d.fields {
			for i := 0; i < s.NumFields(); i++ {
				f := s.Field(i)
				if f.Name() != fname {
					continue
				}
				a := e.fieldAddr(obj, stT, i)
				if a.A == nil {
					continue
				}
				oldv := e.load(st, a.A)
				nv := e.fresh("conc_"+fname, a.A.sort)
				e.assume(st.reach, e.typeAssume(nv, f.Type(), st.hwm))
				e.store(st, a.A, nv)
				if mt, ok := f.Type().Underlying().(*types.Map); ok {
					ps := arrSort(SInt, arrSort(sortOf(mt.Key()), SBool))
					vs := arrSort(SInt, arrSort(sortOf(mt.Key()), sortOf(mt.Elem())))
					hp := e.comp(st, mapPHeap(mt), ps)
					hv := e.comp(st, mapVHeap(mt), vs)
					hp = Store(hp, oldv, e.fresh("conc_mp", arrSort(sortOf(mt.Key()), SBool)))
					hv = Store(hv, oldv, e.fresh("conc_mv", arrSort(sortOf(mt.Key()), sortOf(mt.Elem()))))
					st.heaps[mapPHeap(mt)] = e.def("h", hp)
					st.heaps[mapVHeap(mt)] = e.def("h", hv)
				}
			}
		}
	}
}

func shortType(structName string) string {
	// "env.Env" -> "env.Env" is resolvable through ByName; keep as is
	return structName
}

// checkCritical: the critical-section clauses of the contract, evaluated at a release.
func (e *Enc) checkCritical(st *State, ins ssa.Instruction) {
	if e.c == nil {
		return
	}
	sec := e.comp(st, "X:section", SInt)
	for k, cls := range e.c.Critical {
		acq := e.acqStates[k]
		if acq == nil {
			continue
		}
		for i, cl := range cls {
			sc := e.specCtx(st, e.pre)
			sc.acq = acq
			t, err := sc.evalBool(cl.Expr)
			if err != nil {
				e.unsupported = fmt.Sprintf("critical %d %q: %v", k, cl.Text, err)
				return
			}
			anchor := cl.Label
			if anchor == "" {
				anchor = fmt.Sprintf("section%d.%d", k, i)
			}
			e.oblige("critical", anchor, clauseProps(cl, lockProps), st.reach, Imp(Eq(sec, I(int64(k))), t), "critical section "+fmt.Sprint(k)+": "+cl.Text, ins.Pos())
		}
	}
}

func (e *Enc) lockAtReturn(st *State, ins *ssa.Return) {
	if _, ok := st.heaps["X:held"]; !ok {
		return
	}
	hs := arrSort(SInt, SInt)
	e.oblige("lock", "balanced", lockProps, st.reach, Eq(e.comp(st, "X:held", hs), e.comp(e.pre, "X:held", hs)), "every lock taken by the function is released on this exit", ins.Pos())
}

// astNodeTypes: the concrete node types (*ast.T) of package ast that implement iface, in name order.
func (P *Prog) astNodeTypes(kind string) []*types.Named {
	pkg := P.ByName["ast"]
	if pkg == nil {
		return nil
	}
	var out []*types.Named
	names := pkg.Scope().Names()
	for _, n := range names {
		tn, ok := pkg.Scope().Lookup(n).(*types.TypeName)
		if !ok {
			continue
		}
		named, ok := tn.Type().(*types.Named)
		if !ok {
			continue
		}
		if _, isStruct := named.Underlying().(*types.Struct); !isStruct {
			continue
		}
		// the three node interfaces are structurally identical (all are just Pos); a node's class is the
		// <Kind>Impl struct it embeds
		// <Kind>Impl struct it embeds — except that package ast's naming convention wins where the two disagree
		// (DeleteStmt and ChanStmt embed ExprImpl but are built and used as statements by the parser)
		st := named.Underlying().(*types.Struct)
		isNode := false
		for i := 0; i < st.NumFields(); i++ {
			if f := st.Field(i); f.Embedded() {
				if fn, ok := f.Type().(*types.Named); ok && strings.HasSuffix(fn.Obj().Name(), "Impl") {
					isNode = true
				}
			}
		}
		if isNode && strings.HasSuffix(named.Obj().Name(), kind) {
			out = append(out, named)
		}
	}
	return out
}

func (sc *SCtx) childrenFormula(knownOnly bool, n Term, kind string) (Term, error) {
	e := sc.e
	e.declIface()
	kindOf := func(t types.Type) string {
		if nn, ok := t.(*types.Named); ok && nn.Obj().Pkg() != nil && nn.Obj().Pkg().Name() == "ast" && isAnkoPkg(nn.Obj().Pkg()) {
			switch nn.Obj().Name() {
			case "Expr":
				return "E"
			case "Stmt":
				return "S"
			case "Operator":
				return "O"
			}
		}
		return ""
	}
	var conj []Term
	var known []Term
	for _, T := range e.P.astNodeTypes(kind) {
		pt := types.NewPointer(T)
		is := Eq(app(SInt, "dyn", n), e.tid(pt))
		known = append(known, is)
		if knownOnly {
			continue
		}
		obj := app(SInt, "ival", n)
		st := T.Underlying().(*types.Struct)
		var cs []Term
		for i := 0; i < st.NumFields(); i++ {
			f := st.Field(i)
			if f.Embedded() {
				continue
			}
			var fn string
			if k := kindOf(f.Type()); k != "" {
				fn = "walked" + k
			} else if sl, ok := f.Type().Underlying().(*types.Slice); ok {
				if k := kindOf(sl.Elem()); k != "" {
					fn = "walked" + k + "s"
				}
			}
			if fn == "" {
				continue
			}
			fa := e.fieldAddr(obj, T, i)
			if fa.A == nil {
				continue
			}
			n2 := *sc
			n2.vars = map[string]Val{}
			n2.vtypes = map[string]types.Type{}
			for k, v := range sc.vars {
				n2.vars[k] = v
				n2.vtypes[k] = sc.vtypes[k]
			}
			n2.vars["$child"] = tv(e.load(sc.st, fa.A))
			n2.vtypes["$child"] = f.Type()
			t, err := n2.evalBool(SCall{Fun: fn, Args: []SExpr{SIdent{"$child"}}})
			if err != nil {
				return Term{}, fmt.Errorf("childrenWalked: %s.%s: %v", T.Obj().Name(), f.Name(), err)
			}
			cs = append(cs, t)
		}
		conj = append(conj, Imp(is, And(cs...)))
	}
	if knownOnly {
		return Or(append(known, Eq(n, I(0)))...), nil
	}
	return And(conj...), nil
}
