package main

import (
	"go/types"

	"golang.org/x/tools/go/ssa"
)

func ptrTo(t *ssa.Type) types.Type { return types.NewPointer(t.Type()) }
