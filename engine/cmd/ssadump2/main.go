package main

import (
	"fmt"
	"os"
	"strings"

	"golang.org/x/tools/go/packages"
	"golang.org/x/tools/go/ssa"
	"golang.org/x/tools/go/ssa/ssautil"
)

func main() {
	cfg := &packages.Config{Mode: packages.LoadAllSyntax, Dir: "/repo", BuildFlags: []string{"-tags=verif"}}
	pkgs, err := packages.Load(cfg, "./...")
	if err != nil {
		panic(err)
	}
	prog, spkgs := ssautil.Packages(pkgs, ssa.NaiveForm)
	prog.Build()
	for _, p := range spkgs {
		if p == nil {
			continue
		}
		for _, m := range p.Members {
			if f, ok := m.(*ssa.Function); ok {
				dump(f)
			}
			if t, ok := m.(*ssa.Type); ok {
				for _, typ := range []interface{ String() string }{t.Type()} {
					_ = typ
				}
				ms := prog.MethodSets.MethodSet(t.Type())
				for i := 0; i < ms.Len(); i++ {
					if f := prog.MethodValue(ms.At(i)); f != nil {
						dump(f)
					}
				}
				ms = prog.MethodSets.MethodSet(ptrTo(t))
				for i := 0; i < ms.Len(); i++ {
					if f := prog.MethodValue(ms.At(i)); f != nil {
						dump(f)
					}
				}
			}
		}
	}
}

func dump(f *ssa.Function) {
	if len(os.Args) > 1 {
		ok := false
		for _, a := range os.Args[1:] {
			if strings.Contains(f.String(), a) {
				ok = true
			}
		}
		if !ok {
			return
		}
	}
	if f.Blocks == nil {
		return
	}
	f.WriteTo(os.Stdout)
	for _, an := range f.AnonFuncs {
		dump(an)
	}
	fmt.Println()
}
