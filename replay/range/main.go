// Replay harness for failed obligations of core's range builtin (C19): a BOUNDED search over boundary argument tuples,
// comparing the real builtin (through vm.Execute of /repo) with the arithmetic progression of the property statement.
// Exit 1 = mismatch found (printed). Huge progressions are skipped (only tuples with fewer than 10000 elements are run).
package main

import (
	"fmt"
	"math"
	"math/big"
	"os"

	"github.com/mattn/anko/core"
	"github.com/mattn/anko/env"
	"github.com/mattn/anko/vm"
)

func want(start, stop, step int64) ([]int64, bool) {
	if step == 0 {
		return nil, false
	}
	n := new(big.Int).Sub(big.NewInt(stop), big.NewInt(start))
	s := big.NewInt(step)
	if (step > 0 && n.Sign() <= 0) || (step < 0 && n.Sign() >= 0) {
		return []int64{}, true
	}
	// count = ceil(|stop-start| / |step|)
	q, r := new(big.Int).QuoRem(new(big.Int).Abs(n), new(big.Int).Abs(s), new(big.Int))
	if r.Sign() != 0 {
		q.Add(q, big.NewInt(1))
	}
	if q.Cmp(big.NewInt(10000)) > 0 {
		return nil, false
	}
	out := []int64{}
	for k := int64(0); k < q.Int64(); k++ {
		out = append(out, start+k*step)
	}
	return out, true
}

func main() {
	vals := []int64{0, 1, -1, 2, 3, 5, -5, 10, 100, math.MaxInt64, math.MaxInt64 - 1, math.MaxInt64 - 7, math.MinInt64, math.MinInt64 + 1, math.MinInt64 + 9}
	steps := []int64{1, -1, 2, -2, 3, 5, -7, math.MaxInt64, math.MinInt64}
	found, tried := 0, 0
	for _, a := range vals {
		for _, b := range vals {
			for _, st := range steps {
				w, ok := want(a, b, st)
				if !ok {
					continue
				}
				e := env.NewEnv()
				core.Import(e)
				e.Define("a", a)
				e.Define("b", b)
				e.Define("s", st)
				got, err := vm.Execute(e, nil, "range(a, b, s)")
				tried++
				g, isSlice := got.([]int64)
				bad := err != nil || !isSlice || len(g) != len(w)
				if !bad {
					for i := range g {
						if g[i] != w[i] {
							bad = true
						}
					}
				}
				if bad {
					found++
					if found <= 8 {
						fmt.Printf("REPRODUCED: range(%d, %d, %d): real builtin gives %v err=%v; the progression of the property statement is %v\n", a, b, st, short(got), err, short(w))
					}
				}
			}
		}
	}
	if found > 0 {
		fmt.Printf("%d mismatches in %d evaluations (bounded search)\n", found, tried)
		os.Exit(1)
	}
	fmt.Printf("no mismatch in %d evaluations (bounded search, not a proof)\n", tried)
}

func short(x interface{}) string {
	s := fmt.Sprint(x)
	if len(s) > 120 {
		return s[:120] + "..."
	}
	return s
}
