// Replay harness for C03 table-lemma obligations: parses an operator expression and its explicitly parenthesised
// form (parenthesised as the operator table of the property statement dictates) with the REAL parser of /repo and
// compares the trees, ignoring parenthesis nodes and positions. Exit 1 = the trees differ (violation reproduced).
//
// usage: lrtable <source> <explicitly parenthesised source>
package main

import (
	"fmt"
	"os"
	"reflect"

	"github.com/mattn/anko/ast"
	"github.com/mattn/anko/parser"
)

var posType = reflect.TypeOf(ast.PosImpl{})

// strip returns a copy of the tree with positions zeroed and ParenExpr nodes replaced by what they hold.
func strip(v reflect.Value) reflect.Value {
	switch v.Kind() {
	case reflect.Interface:
		if v.IsNil() {
			return v
		}
		inner := strip(v.Elem())
		out := reflect.New(v.Type()).Elem()
		out.Set(inner)
		return out
	case reflect.Ptr:
		if v.IsNil() {
			return v
		}
		if p, ok := v.Interface().(*ast.ParenExpr); ok {
			return strip(reflect.ValueOf(p.SubExpr))
		}
		out := reflect.New(v.Type().Elem())
		out.Elem().Set(strip(v.Elem()))
		return out
	case reflect.Struct:
		if v.Type() == posType || v.Type().PkgPath() == "reflect" {
			if v.Type() == posType {
				return reflect.Zero(v.Type())
			}
			return v
		}
		out := reflect.New(v.Type()).Elem()
		for i := 0; i < v.NumField(); i++ {
			if !out.Field(i).CanSet() {
				continue
			}
			out.Field(i).Set(strip(v.Field(i)))
		}
		return out
	case reflect.Slice:
		if v.IsNil() {
			return v
		}
		out := reflect.MakeSlice(v.Type(), v.Len(), v.Len())
		for i := 0; i < v.Len(); i++ {
			out.Index(i).Set(strip(v.Index(i)))
		}
		return out
	}
	return v
}

func dump(x interface{}) string { return fmt.Sprintf("%#v", x) }

func shape(v reflect.Value, depth int) string {
	switch v.Kind() {
	case reflect.Interface, reflect.Ptr:
		if v.IsNil() {
			return "nil"
		}
		return shape(v.Elem(), depth)
	case reflect.Struct:
		if v.Type().PkgPath() == "reflect" {
			if rv, ok := v.Interface().(reflect.Value); ok && rv.IsValid() && rv.CanInterface() {
				return fmt.Sprintf("%v", rv.Interface())
			}
			return "value"
		}
		s := v.Type().Name() + "{"
		for i := 0; i < v.NumField(); i++ {
			f := v.Type().Field(i)
			if f.Type == posType || f.PkgPath != "" {
				continue
			}
			s += f.Name + ":" + shape(v.Field(i), depth+1) + " "
		}
		return s + "}"
	case reflect.Slice:
		s := "["
		for i := 0; i < v.Len(); i++ {
			s += shape(v.Index(i), depth+1) + ","
		}
		return s + "]"
	}
	return fmt.Sprintf("%v", v.Interface())
}

func main() {
	if len(os.Args) != 3 {
		fmt.Println("usage: lrtable <source> <parenthesised source>")
		os.Exit(2)
	}
	a, errA := parser.ParseSrc(os.Args[1])
	b, errB := parser.ParseSrc(os.Args[2])
	if errB != nil {
		fmt.Printf("INCONCLUSIVE: the parenthesised form %q does not parse: %v\n", os.Args[2], errB)
		os.Exit(3)
	}
	if errA != nil {
		fmt.Printf("REPRODUCED: %q does not parse (%v) although its parenthesised form %q does\n", os.Args[1], errA, os.Args[2])
		os.Exit(1)
	}
	sa := shape(strip(reflect.ValueOf(a)), 0)
	sb := shape(strip(reflect.ValueOf(b)), 0)
	if sa != sb {
		fmt.Printf("REPRODUCED: real parser.ParseSrc builds different trees\n  %q => %s\n  %q => %s\n", os.Args[1], sa, os.Args[2], sb)
		os.Exit(1)
	}
	fmt.Printf("not reproduced: %q and %q parse to the same tree %s\n", os.Args[1], os.Args[2], sa)
}
