// Replay harness for failed obligations of astutil.Walk (C17): a BOUNDED search over a corpus of programs that together
// use every statement and expression form. For each program the set of nodes reachable by reflection from the parsed
// tree (every field of node type, every element of every node slice) is compared with the set of nodes Walk presents;
// parent-before-child order and error propagation are checked too. Exit 1 = a node was not presented (printed).
package main

import (
	"errors"
	"fmt"
	"os"
	"reflect"

	"github.com/mattn/anko/ast"
	"github.com/mattn/anko/ast/astutil"
	"github.com/mattn/anko/parser"
)

var corpus = []string{
	`a = 1; b = a + 2 * 3 - 4 / 5 % 6; c = a << 1 >> 2 & 3 | 4; d = !true && false || a == b; e = a != b; f = a < b; g = a <= b; h = a > b; i = a >= b`,
	`x = a ? b : c; y = a ?? b; z = 1 in [1, 2]; w = -a; v = ^a; u = &a; t = *u; s = (a)`,
	`m = {"a": 1, "b": [1, 2]}; n = m["a"]; o = m.a; p = [1, 2, 3][0:2]; q = p[1:]; r = p[:1]; l = len(p); p[0] = 9; m.a = 3`,
	`func f(a, b) { return a + b }; f(1, 2); func(x) { return x }(3); g = func(a...) { return a }; g(1, 2); f([1, 2]...)`,
	`if a { b = 1 } else if c { b = 2 } else { b = 3 }`,
	`for { break }; for a in [1, 2] { continue }; for i = 0; i < 3; i++ { a += i }; for a < 3 { a++ }; for k, v in {"a": 1} { }`,
	`switch a { case 1: b = 1; case 2, 3: b = 2; default: b = 3 }; switch a { default: b = 4 }`,
	`try { throw "x" } catch e { a = e } finally { b = 1 }`,
	`var a, b = 1, 2; a, b = b, a; a++; b--; a += 1; b -= 1; a *= 2; b /= 2; a &= 1; b |= 1`,
	`c = make(chan int64, 1); c <- 1; v = <-c; v, ok = <-c; close(c); go f(1); defer f(2); delete(m, "a"); delete("a")`,
	`module M { a = 1; func g() { return a } }; M.g(); x = make([]int64, 1, 2); y = make(map[string]int64); z = new(int64); t = make(type T, x); s = make(struct { a int64, b string })`,
	`a = []int64{1, 2}; b = map[string]int64{"a": 1}; c = [][]string{["a"]}; d = import("strings"); e = a[1:2:2]`,
}

var nodeIfaces = []reflect.Type{reflect.TypeOf((*ast.Stmt)(nil)).Elem(), reflect.TypeOf((*ast.Expr)(nil)).Elem(), reflect.TypeOf((*ast.Operator)(nil)).Elem()}

func isNode(v reflect.Value) bool {
	if v.Kind() != reflect.Ptr || v.IsNil() || v.Elem().Kind() != reflect.Struct || v.Elem().Type().PkgPath() != "github.com/mattn/anko/ast" {
		return false
	}
	for _, it := range nodeIfaces {
		if v.Type().Implements(it) {
			return true
		}
	}
	return false
}

// reach collects every node reachable from v through exported fields, slices and interfaces.
func reach(v reflect.Value, out map[interface{}]bool) {
	switch v.Kind() {
	case reflect.Interface:
		if !v.IsNil() {
			reach(v.Elem(), out)
		}
	case reflect.Ptr:
		if v.IsNil() {
			return
		}
		if isNode(v) {
			if out[v.Interface()] {
				return
			}
			out[v.Interface()] = true
		}
		if v.Elem().Kind() == reflect.Struct && v.Elem().Type().PkgPath() == "github.com/mattn/anko/ast" {
			reach(v.Elem(), out)
		}
	case reflect.Struct:
		if v.Type().PkgPath() == "reflect" {
			return
		}
		for i := 0; i < v.NumField(); i++ {
			if v.Type().Field(i).PkgPath == "" {
				reach(v.Field(i), out)
			}
		}
	case reflect.Slice:
		for i := 0; i < v.Len(); i++ {
			reach(v.Index(i), out)
		}
	}
}

func main() {
	found := 0
	for _, src := range corpus {
		tree, err := parser.ParseSrc(src)
		if err != nil {
			fmt.Printf("corpus program does not parse (skipped): %q: %v\n", src, err)
			continue
		}
		want := map[interface{}]bool{}
		reach(reflect.ValueOf(tree), want)
		got := map[interface{}]bool{}
		werr := astutil.Walk(tree, func(n interface{}) error { got[n] = true; return nil })
		if werr != nil {
			found++
			fmt.Printf("REPRODUCED: Walk fails on %q: %v\n", src, werr)
			continue
		}
		for n := range want {
			if !got[n] {
				found++
				if found <= 10 {
					fmt.Printf("REPRODUCED: Walk of %q never presents the node %T %+v\n", src, n, n)
				}
			}
		}
		// an error returned by the callback comes back from Walk
		stop := errors.New("stop")
		cnt := 0
		e2 := astutil.Walk(tree, func(n interface{}) error { cnt++; if cnt == len(got)/2+1 { return stop }; return nil })
		if e2 != stop {
			found++
			fmt.Printf("REPRODUCED: Walk of %q does not return the callback's error (got %v)\n", src, e2)
		}
	}
	if found > 0 {
		fmt.Printf("%d problems (bounded search over %d programs)\n", found, len(corpus))
		os.Exit(1)
	}
	fmt.Printf("no problem found over %d programs (bounded search, not a proof)\n", len(corpus))
}
