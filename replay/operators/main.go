// Replay harness for failed operator obligations (C05, C06, C20): a BOUNDED search for a concrete failing input on the
// real interpreter. The solver usually returns `unknown` (not a model) for these obligations, so instead of a model
// this harness evaluates every operator of the property statements over a grid of boundary operands - each operand
// once as a plain variable and once read from a slice element (interface-typed) - with vm.Execute of /repo, and compares
// with the reference semantics written from the property statements (Go's int64 / float64 arithmetic, the equality
// relation of C06). Exit 1 = a mismatch was found (printed); exit 0 = none found within the grid (bounded, not a proof).
package main

import (
	"fmt"
	"math"
	"os"
	"reflect"

	"github.com/mattn/anko/env"
	"github.com/mattn/anko/vm"
)

var ints = []int64{0, 1, -1, 2, -2, 3, 4, -5, 7, 63, 64, 65, 4095, 4096, 4097, 1 << 31, 1<<53 - 1, 1 << 53, 1<<53 + 1, -(1<<53 + 1), 1 << 62, math.MaxInt64, math.MaxInt64 - 1, math.MinInt64, math.MinInt64 + 1}
var floats = []float64{0, 1, -1, 0.5, 1.5, -2.5, 3, 9007199254740992, 9007199254740994, 1e18, 9.223372036854775807e18, 1e300}

type operand struct {
	v    interface{}
	wrap bool
}

func run(script string, a, b interface{}, wa, wb bool) (interface{}, error) {
	e := env.NewEnv()
	if wa {
		e.Define("la", []interface{}{a})
		script = replaceVar(script, "a", "la[0]")
	} else {
		e.Define("a", a)
	}
	if wb {
		e.Define("lb", []interface{}{b})
		script = replaceVar(script, "b", "lb[0]")
	} else {
		e.Define("b", b)
	}
	return vm.Execute(e, nil, script)
}

func replaceVar(s, name, with string) string {
	out := ""
	for i := 0; i < len(s); i++ {
		if s[i] == name[0] && (i == 0 || !isIdent(s[i-1])) && (i+1 == len(s) || !isIdent(s[i+1])) {
			out += with
		} else {
			out += string(s[i])
		}
	}
	return out
}

func isIdent(c byte) bool { return c == '_' || c >= 'a' && c <= 'z' || c >= 'A' && c <= 'Z' || c >= '0' && c <= '9' }

func asF(x interface{}) float64 {
	switch x := x.(type) {
	case int64:
		return float64(x)
	case float64:
		return x
	}
	return math.NaN()
}

// reference: what the property statements say `a op b` is; ok=false: not covered by the reference (skipped)
func ref(op string, a, b interface{}) (res interface{}, isErr bool, ok bool) {
	ai, aInt := a.(int64)
	bi, bInt := b.(int64)
	if aInt && bInt {
		switch op {
		case "+":
			return ai + bi, false, true
		case "-":
			return ai - bi, false, true
		case "*":
			return ai * bi, false, true
		case "/":
			if bi == 0 {
				return nil, false, false
			}
			return float64(ai) / float64(bi), false, true
		case "%":
			if bi == 0 {
				return nil, true, true
			}
			return ai % bi, false, true
		case "&":
			return ai & bi, false, true
		case "|":
			return ai | bi, false, true
		case "<<":
			return ai << uint64(bi), false, true
		case ">>":
			return ai >> uint64(bi), false, true
		case "==":
			return ai == bi, false, true
		case "!=":
			return ai != bi, false, true
		case "<":
			return ai < bi, false, true
		case "<=":
			return ai <= bi, false, true
		case ">":
			return ai > bi, false, true
		case ">=":
			return ai >= bi, false, true
		}
		return nil, false, false
	}
	fa, fb := asF(a), asF(b)
	switch op {
	case "+":
		return fa + fb, false, true
	case "-":
		return fa - fb, false, true
	case "*":
		return fa * fb, false, true
	case "/":
		if fb == 0 {
			return nil, false, false
		}
		return fa / fb, false, true
	case "==":
		return fa <= fb && fa >= fb, false, true
	case "!=":
		return !(fa <= fb && fa >= fb), false, true
	case "<":
		return fa < fb, false, true
	case "<=":
		return fa <= fb, false, true
	case ">":
		return fa > fb, false, true
	case ">=":
		return fa >= fb, false, true
	}
	return nil, false, false
}

func same(got, want interface{}) bool {
	if gf, ok := got.(float64); ok {
		if wf, ok := want.(float64); ok {
			return gf == wf || (math.IsNaN(gf) && math.IsNaN(wf)) || (math.IsInf(gf, 0) && math.IsInf(wf, 0) && math.Signbit(gf) == math.Signbit(wf))
		}
		return false
	}
	return reflect.DeepEqual(got, want)
}

func main() {
	var vals []interface{}
	for _, i := range ints {
		vals = append(vals, i)
	}
	for _, f := range floats {
		vals = append(vals, f)
	}
	ops := []string{"+", "-", "*", "/", "%", "&", "|", "<<", ">>", "==", "!=", "<", "<=", ">", ">="}
	found := 0
	tried := 0
	report := func(script string, a, b interface{}, wa, wb bool, got interface{}, err error, want interface{}, wantErr bool) {
		found++
		if found <= 12 {
			fmt.Printf("REPRODUCED: %-8s a=%v (%T%s) b=%v (%T%s): real vm.Execute gives %v (%T) err=%v; the property statement gives %v (%T) error=%v\n",
				script, a, a, map[bool]string{true: ", slice element", false: ""}[wa], b, b, map[bool]string{true: ", slice element", false: ""}[wb], got, got, err, want, want, wantErr)
		}
	}
	for _, op := range ops {
		for _, a := range vals {
			for _, b := range vals {
				if (op == "<<" || op == ">>") && (asF(b) < 0 || asF(b) > 64) {
					continue // Go shifts by huge / negative counts are defined, but keep the grid to plain counts
				}
				want, wantErr, ok := ref(op, a, b)
				if !ok {
					continue
				}
				for _, w := range [][2]bool{{false, false}, {true, false}, {false, true}, {true, true}} {
					script := "a " + op + " b"
					got, err := run(script, a, b, w[0], w[1])
					tried++
					if wantErr {
						if err == nil {
							report(script, a, b, w[0], w[1], got, err, want, wantErr)
						}
						continue
					}
					if err != nil || !same(got, want) {
						report(script, a, b, w[0], w[1], got, err, want, wantErr)
					}
				}
			}
		}
	}
	// unary - and ^ on integers, - on floats
	for _, a := range vals {
		for _, w := range []bool{false, true} {
			if ai, ok := a.(int64); ok {
				for _, u := range []struct {
					op   string
					want int64
				}{{"-", -ai}, {"^", ^ai}} {
					got, err := run(u.op+"a", a, int64(0), w, false)
					tried++
					if err != nil || !same(got, u.want) {
						report(u.op+"a", a, nil, w, false, got, err, u.want, false)
					}
				}
			} else {
				got, err := run("-a", a, int64(0), w, false)
				tried++
				if err != nil || !same(got, -a.(float64)) {
					report("-a", a, nil, w, false, got, err, -a.(float64), false)
				}
			}
		}
	}
	// == symmetric, != its negation
	for _, a := range vals {
		for _, b := range vals {
			ab, e1 := run("a == b", a, b, false, false)
			ba, e2 := run("b == a", a, b, false, false)
			ne, e3 := run("a != b", a, b, false, false)
			tried += 3
			if e1 != nil || e2 != nil || e3 != nil || ab != ba || ne == ab {
				report("a == b / b == a / a != b", a, b, false, false, []interface{}{ab, ba, ne}, e1, "symmetric, != is the negation", false)
			}
		}
	}
	if found > 0 {
		fmt.Printf("%d mismatches in %d evaluations (bounded search over %d operand values)\n", found, tried, len(vals))
		os.Exit(1)
	}
	fmt.Printf("no mismatch in %d evaluations over %d operand values (bounded search, not a proof)\n", tried, len(vals))
}
