#!/usr/bin/env python3
"""mkmutant.py NAME FILE OLD NEW [--run]: writes /verif/selftest/mutants/NAME.patch replacing the single occurrence of OLD by NEW in
/repo/FILE (relative path); with --run also checks it immediately (applies to a scratch copy, runs the property's quick check)."""
import sys, os, subprocess, tempfile, shutil
name, f, old, new = sys.argv[1:5]
src = open('/repo/'+f).read()
if src.count(old) != 1:
    sys.exit(f"OLD occurs {src.count(old)} times in {f}")
d = tempfile.mkdtemp(prefix='mkmut-')
try:
    os.makedirs(f'{d}/a/{os.path.dirname(f)}', exist_ok=True); os.makedirs(f'{d}/b/{os.path.dirname(f)}', exist_ok=True)
    open(f'{d}/a/{f}','w').write(src); open(f'{d}/b/{f}','w').write(src.replace(old, new))
    r = subprocess.run(['diff','-u',f'a/{f}',f'b/{f}'], cwd=d, capture_output=True, text=True)
    open(f'/verif/selftest/mutants/{name}.patch','w').write(r.stdout)
finally:
    shutil.rmtree(d)
print("written", name)
if '--run' in sys.argv:
    os.execv('/verif/selftest/run.sh', ['/verif/selftest/run.sh', name])
