#!/usr/bin/env python3
"""Regenerates /verif/MANIFEST.json from the table below (claimed properties) and properties.jsonl."""
import json, subprocess, os

V = '/verif'
props = [json.loads(l) for l in open(f'{V}/properties.jsonl')]

TRUST = ("Trusted base: go/ssa IR construction (x/tools v0.29.0), govc's SSA-to-SMT translation, the SMT solvers, "
         "the trusted standard-library contracts in /verif/trusted/*.spec, and the meta-argument that per-function proofs "
         "compose over the program tree. ")

CLAIMS = {
 'C12': dict(
  text="Deductive proof, for all arguments and all heaps, that every method of env.Env meets a contract written over the abstract view 'chain of dictionaries': "
       "recursive spec functions foundV/lookupV/nearest/foundT/lookupT/rootOf (heap-reading, unfolded one step per activation) define nearest-binding lookup with the external lookup "
       "consulted after the scope's own table and built-in type names last; GetValue/Type return exactly lookupV/lookupT or an error with NilValue/NilType; SetValue updates exactly the "
       "nearest binding (whole-heap postcondition: the value heap equals the old one updated at that one key, the key sets are unchanged) or fails changing nothing; Define*/Delete change "
       "exactly the addressed key of the addressed scope (quantified 'all other keys unchanged'), dotted names are rejected with nothing changed; DefineGlobal* act on the root; constructors and Copy "
       "return fresh objects (fresh maps) and leave the source untouched; frames (modifies) and panic-freedom (nil map writes, nil derefs, index) are obligations on every function. "
       "Not decided: that Copy's new maps have the same CONTENT as the source (needs a map-iteration model with a visited set), DeepCopy's chain shape, the element order of symbol listings.",
  note=TRUST + "ExternalLookup implementations are modelled as pure functions of (object, name). Assumed: no typed-nil *Env is bound as a value; strings.Contains is a pure predicate; reflect.ValueOf/TypeOf are pure.",
  technique="contract-based deductive verification: VCs from go/ssa against a dictionary-chain view, discharged by z3/cvc5",
  ref="4 C12"),
 'C13': dict(
  text="Deductive proof of the lock discipline from which atomicity follows: ghost lock state per scope; every read of the guarded fields values/types (and of the maps they point to) happens with the "
       "scope's lock held, every write with the write lock; no lock is re-acquired while held; every lock taken is released on every exit path (incl. deferred unlocks); and, in 'concurrent mode' "
       "(the guarded state of the scope is havoced at every acquire, modelling other goroutines), two-state critical-section contracts: Define/DefineType: the section's final table equals the table at "
       "acquire updated at the key; SetValue: found-or-not is decided and the write done inside ONE section (a check under one acquisition and a write under another cannot prove it); Delete; readers "
       "return a value of the table as of their own section. The step from this discipline to linearizability is the classical reduction argument and is NOT machine-checked; no interleavings are explored.",
  note=TRUST + "Assumed: the parent chain is acyclic (child-to-parent lock order in Addr cannot cycle); sync.RWMutex implements a reader/writer lock; memory-model level races other than lock discipline are out of scope.",
  technique="contract-based deductive verification: lockset discipline + havoc-at-acquire critical-section specs, discharged by z3/cvc5",
  ref="4 C13"),
 'C15': dict(
  text="Deductive proof, for all inputs, of the scanner/lexer half of the property: every Scanner method, Lexer.Lex/Error, Parse and ParseSrc "
       "is symbolically executed from the SSA of /repo's working tree against contracts kept in parser/zz_contracts_verif.go; obligations: memory "
       "safety of every index/slice/deref, the scanner object invariant (0<=lineHead<=offset<=len(src), no newline between lineHead and offset, "
       "line == number of newlines before offset), termination variants on every scanner loop including the comment/retry cycle, the position "
       "returned with every token lies inside the text (line within the text's lines, column at most one past the end of its line), every error "
       "stored by the lexer is a *parser.Error carrying such a position, frames (only offset/lineHead/line change). Lemmas about the newline "
       "count are proved by induction. The clause 'concatenation law' and termination of the goyacc driver are NOT decided (no per-call contract expresses them).",
  note=TRUST + "The goyacc LR driver (yyParserImpl.Parse, yyParse and its helpers) is trusted: assumed to touch the lexer only through Lex/Error and the semantic actions "
       "and to call Error only after a Lex. unicode.IsLetter is assumed false on negative runes and ASCII non-letters.",
  technique="contract-based deductive verification: weakest-precondition style VCs from go/ssa, discharged by z3/cvc5",
  ref="4 C15"),
}

def main():
    repo_commits = subprocess.run(['git','-C','/repo','log','--format=%H %s'],capture_output=True,text=True).stdout.strip().split('\n')
    hooks = [l.split()[0] for l in repo_commits if 'verif hook' in l]
    checks = []
    for p in props:
        c = CLAIMS.get(p['id'])
        if not c: continue
        checks.append({
            'property_id': p['id'],
            'quick_cmd': f"/verif/bin/govc check --property {p['id']} --tier quick",
            'thorough_cmd': f"/verif/bin/govc check --property {p['id']} --tier thorough",
            'evidence_file': f"/verif/evidence/{p['id']}.json",
            'replay_cmd_template': '/verif/bin/govc replay {path}',
            'engine': 'govc',
            'level_claimed': {'category': c.get('category','proof'), 'text': c['text'], 'design_ref': 'DESIGN.md section ' + c['ref']},
            'level_note': c['note'],
            'technique': c['technique'],
        })
    na = []
    NA = json.load(open(f'{V}/tools/not_applicable.json')) if os.path.exists(f'{V}/tools/not_applicable.json') else {}
    for p in props:
        if p['id'] in CLAIMS: continue
        na.append({'property_id': p['id'], 'reason': NA.get(p['id'], 'contracts not completed yet: engine and contracts under construction (DESIGN.md section 7); no check is claimed until its obligations discharge on the unchanged tree')})
    m = {
     'version': 1,
     'setup_cmd': 'cd /verif/engine && GOFLAGS=-mod=mod GOPROXY=off GOSUMDB=off GOTOOLCHAIN=local go build -o /verif/bin/govc ./cmd/govc',
     'hooks': {'guard': 'verif',
               'enable': 'go/packages BuildFlags -tags=verif: the hooks are comment-only contract files (zz_contracts_verif.go, //go:build verif); no executable code is added',
               'baseline_off_cmd': 'cd /repo && go test -vet=off -count=1 -timeout 25m ./...',
               'source_commits': hooks, 'add_only': True},
     'engines': [{'name': 'govc', 'path': '/verif/engine', 'serves_properties': sorted(CLAIMS),
                  'kind_free_text': 'self-built verification-condition generator over go/ssa (NaiveForm) of /repo\'s working tree; contracts in //go:build verif comment files in /repo; obligations discharged by z3 5.1.0 / z3 4.8.12 / cvc5 1.0.3'}],
     'checks': checks,
     'not_applicable': na,
     'notes': 'Technique family: contract-based deductive verification of the real code. See DESIGN.md. Exit codes: 0 held, 1 VIOLATION, 2 engine problem.',
    }
    json.dump(m, open(f'{V}/MANIFEST.json','w'), indent=1)
    print('claimed:', sorted(CLAIMS), 'hooks:', len(hooks))

main()
