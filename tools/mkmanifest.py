#!/usr/bin/env python3
"""Regenerates /verif/MANIFEST.json from the table below (claimed properties) and properties.jsonl."""
import json, subprocess, os

V = '/verif'
props = [json.loads(l) for l in open(f'{V}/properties.jsonl')]

TRUST = ("Trusted base: go/ssa IR construction (x/tools v0.29.0), govc's SSA-to-SMT translation, the SMT solvers, "
         "the trusted standard-library contracts in /verif/trusted/*.spec, and the meta-argument that per-function proofs "
         "compose over the program tree. ")

CLAIMS = {
 'C04': dict(
  text="Deductive proof over every statement/expression evaluator of package vm (about 110 functions, contracts via shared templates): the last sentence of the property is literally the postcondition "
       "runInfo.env == old(runInfo.env), proved on EVERY exit (normal, break/continue/return sentinel, error) of every run*/invoke* function against the same postcondition of its callees, so nesting to any depth follows by induction; "
       "ctx/options are never changed; closures: the function body runner (funcExpr$1) runs in a fresh child of the captured scope (captures clause checked where the closure is created); name resolution and binding forms rest on the env contracts of C12 "
       "(GetValue = nearest binding, SetValue = nearest or error, DefineValue = this scope). Frames: an evaluator changes only its activation's outgoing fields, environment contents and AST positions of nodes it allocated. "
       "Call-site clauses decide WHICH scope bodies run in: the branches of if/else-if/else, switch subject/cases/body, try/catch/finally blocks and loop bodies run in a fresh child of the statement's scope (fresh(runInfo.env) && parent == old scope at every runSingleStmt call); for-in helpers run in the scope runForStmt made; "
       "a function value captures exactly the scope it is defined in (obligation where the closure is created), every invocation runs the body in a FRESH child of the captured scope and binds its parameters there; the catch variable is defined in the try statement's own scope. "
       "Not decided: that var/for-in variables are defined (not set) in the current scope beyond these call-site clauses.",
  note=TRUST + "Assumed: AST well-formedness facts the parser guarantees (no typed-nil nodes, module names without dots, C-for init is a var/assignment); reflect calls other than Call/CallSlice/Select do not touch interpreter state; function values with the VM signature obey the VM-function protocol.",
  technique="contract-based deductive verification: scope-restoration postcondition on every evaluator, VCs from go/ssa, z3/cvc5",
  ref="4 C04"),
 'C08': dict(
  text="Deductive proof of the sentinel protocol over all evaluators: every loop form consumes break/continue on every exit (err != ErrBreak && err != ErrContinue), passes return up, expression evaluators never leave a sentinel "
       "(so a sentinel can only originate from a statement list), helper errors (conversion, env, strconv) are never sentinels, the sentinels are distinct non-nil values (global invariant proved at the exit of the package initialiser, "
       "preserved because no function outside init stores to them), statements start from a clean error state, RunContext turns ErrReturn into a normal result. One known finding (runChanStmt ignores the ok-assignment error). "
       "Over the activation trace: if/else-if/else evaluates its conditions in source order and runs exactly the first branch whose condition is truthy (else the else branch); switch evaluates its subject first, compares case expressions with vm.equal until the first equal one and runs exactly that case body (else the default); "
       "the outcome of the chosen body - value, error, break/continue/return signal - is the outcome of the statement (a switch or if that swallows a break fails); a block stops at its first failing statement and reports that statement's outcome, break/continue/return statements produce their signal; loops stop at the first signal and hand return values up; for-over-map presents the k-th reported key to the k-th iteration and visits every key. "
       "Two known findings (runChanStmt ignores the ok-assignment error; try/catch swallows return/break/continue - both pinned by the existing suite). for-in over a slice presents element k (unwrapped) to the k-th body run and visits every element unless left by break/return/error; the C-style loop evaluates its post expression after every body run that went on - also after continue - before anything else.",
  note=TRUST + "Assumed: VM-function protocol (a function value with the VM signature never returns a sentinel as its error); env error values are distinct objects from the vm sentinels.",
  technique="contract-based deductive verification: sentinel-discipline postconditions and loop invariants, VCs from go/ssa, z3/cvc5",
  ref="4 C08"),
 'C02': dict(
  text="Deductive proof of the safety decomposition of cancellation with two ghost variables (polls, fired; cancellation is monotone: once a poll fired every later poll fires): runSingleStmt polls ctx.Done() before anything else and "
       "returns ErrInterrupt without evaluating or registering anything when the context is already cancelled; every iteration of the five loop forms strictly increases polls (progress obligation on every back edge); every reflect.Select "
       "(channel send, receive, range) has the ctx.Done() receive as its first case (call-site obligation) and reports ErrInterrupt when it is chosen; no expression is evaluated after a poll fired in the activation (precondition !fired on every "
       "expression evaluator: a construct that clears an error and goes on evaluating fails it - this is how the ?? defect was found and repaired); a fired poll always surfaces as a real (non-sentinel) error of the activation and through the VM-function protocol of callers. "
       "Liveness itself (bounded reaction time) is the meta-argument over these obligations; no timing or scheduling is explored.",
  note=TRUST + "Assumed: VM-function protocol for host functions with the VM signature; time inside one host call is outside; the message of the error is not tracked through newError (only error-ness).",
  technique="contract-based deductive verification: ghost poll counter with progress obligations, call-site obligations on reflect.Select, z3/cvc5",
  ref="4 C02"),
 'C09': dict(
  text="Deductive proof of the deferred-call bookkeeping: runDefers preserves the invocation's result value, clears the list before running it (a deferred call cannot re-run it), keeps a real body error in preference to a deferred one and otherwise reports the first deferred error "
       "(loop invariants over the local rv/err), callDeferredFunc changes only err; newError/newStringError results are non-nil *vm.Error values; recoverFunc leaves err alone when nothing panicked. runTryStmt/runDeferStmt are covered for scope, sentinel and cancellation discipline (C04/C08/C02). "
       "Over the activation trace: the try block runs first, catch exactly when it left a (non-interrupt) error with the error bound to the catch variable in the statement's scope, finally after a try that succeeded or whose error was caught and handled, the outcome is that of the last block run; "
       "runDefers runs every registered call exactly once, in reverse order of registration (ncalls == len(defers), k-th call is defers[len-1-k]), and the first error a deferred call raises surfaces exactly when the body did not fail; a throw statement always leaves an error (the proof found `throw \"\"` to be a no-op; repaired by a fix: commit). "
       "Known finding (shared with C08): the catch block also catches return/break/continue signals. A defer statement evaluates function and arguments at the statement (makeCallArgs in the current scope), registers exactly that call after the earlier ones, runs nothing, and registers nothing when anything fails. Not decided: deferred calls at top level (RunContext).",
  note=TRUST + "Assumed: VM-function protocol; reflect.Value.Call semantics.",
  technique="contract-based deductive verification: loop invariants over the deferred-call runner, VCs from go/ssa, z3/cvc5",
  ref="4 C09"),
 'C12': dict(
  text="Deductive proof, for all arguments and all heaps, that every method of env.Env meets a contract written over the abstract view 'chain of dictionaries': "
       "recursive spec functions foundV/lookupV/nearest/foundT/lookupT/rootOf (heap-reading, unfolded one step per activation) define nearest-binding lookup with the external lookup "
       "consulted after the scope's own table and built-in type names last; GetValue/Type return exactly lookupV/lookupT or an error with NilValue/NilType; SetValue updates exactly the "
       "nearest binding (whole-heap postcondition: the value heap equals the old one updated at that one key, the key sets are unchanged) or fails changing nothing; Define*/Delete change "
       "exactly the addressed key of the addressed scope (quantified 'all other keys unchanged'), dotted names are rejected with nothing changed; DefineGlobal* act on the root; constructors and Copy "
       "return fresh objects (fresh maps) and leave the source untouched; frames (modifies) and panic-freedom (nil map writes, nil derefs, index) are obligations on every function. "
       "DeepCopy: the copy shares no scope with the original down to three levels of the chain (each level follows from the level above of the recursive call; the full induction is not one obligation). "
       "Not decided: that Copy's new maps have the same CONTENT as the source (needs a map-iteration model with a visited set), the element order of symbol listings.",
  note=TRUST + "ExternalLookup implementations are modelled as pure functions of (object, name). Assumed: no typed-nil *Env is bound as a value; strings.Contains is a pure predicate; reflect.ValueOf/TypeOf are pure.",
  technique="contract-based deductive verification: VCs from go/ssa against a dictionary-chain view, discharged by z3/cvc5",
  ref="4 C12"),
 'C13': dict(
  text="Deductive proof of the lock discipline from which atomicity follows: ghost lock state per scope; every read of the guarded fields values/types (and of the maps they point to) happens with the "
       "scope's lock held, every write with the write lock; no lock is re-acquired while held; every lock taken is released on every exit path (incl. deferred unlocks); and, in 'concurrent mode' "
       "(the guarded state of the scope is havoced at every acquire, modelling other goroutines), two-state critical-section contracts: Define/DefineType: the section's final table equals the table at "
       "acquire updated at the key; SetValue: found-or-not is decided and the write done inside ONE section (a check under one acquisition and a write under another cannot prove it); Delete; readers "
       "return a value of the table as of their own section. The step from this discipline to linearizability is the classical reduction argument and is NOT machine-checked; no interleavings are explored.",
  note=TRUST + "Assumed: the parent chain is acyclic (child-to-parent lock order in Addr cannot cycle); sync.RWMutex implements a reader/writer lock; memory-model level races other than lock discipline are out of scope.",
  technique="contract-based deductive verification: lockset discipline + havoc-at-acquire critical-section specs, discharged by z3/cvc5",
  ref="4 C13"),
 'C14': dict(
  text="Deductive proof of the frame half of the property (from which isolation follows): (1) every store instruction in vm/env/core/astutil into a field of an AST node type carries the obligation that the node was allocated by the same activation, "
       "and every function's modifies clause is checked at each exit and loop back edge (no contract lists an AST field, so a write into the parsed tree - including caching in a node - fails); SetPosition through the node interfaces is allowed on fresh nodes only; "
       "(2) package-level variables of the anko packages are stored to only by initialisers (and helpers reachable only from them) and the two documented parser switches; package-level maps and the tables stored in them (env.Packages[...]) are never updated outside init, "
       "so import can only copy from them; (3) a *runInfoStruct is never stored anywhere but a local variable (per-run state does not escape); ctx and options of an activation never change. "
       "That concurrent and repeated runs therefore behave as solo runs is the standard non-interference argument over these frames and is NOT machine-checked; no interleavings or race-detector runs are involved.",
  note=TRUST + "Assumed: reflect never mutates a literal stored in the tree (values from reflect.ValueOf are not addressable); host functions bound into an environment are outside.",
  technique="contract-based deductive verification: frame (modifies) obligations on every store and call, z3/cvc5",
  ref="4 C14"),
 'C17': dict(
  text="Deductive proof that the walker is exhaustive and complete, with the child relation taken mechanically from the type declarations of package ast (go/types), not from the walker: for every concrete Stmt/Expr/Operator node type, "
       "walkStmt/walkExpr/walkOperator (a) hand the node to the callback first, (b) then walk every child field and every element of every child slice (per-activation trace of direct calls; existential witnesses found by the solver), "
       "(c) return nil unless a callee - ultimately the callback - returned an error, which is returned unchanged, (d) make no further call after the first error, and (e) the default 'unknown node' branches are unreachable for all node types of the package. "
       "The proof found the walker incomplete (delete/close/chan statements, ??, make(type), switch cases, len operand, slice cap); it was repaired by a fix: commit and now discharges all 573 obligations. Whole-tree coverage follows by induction over the tree (meta).",
  note=TRUST + "Assumed: trees come from the parser (closed world of node types, no typed-nil nodes, len(Keys)==len(Values), switch cases are SwitchCaseStmt); the callback does not modify the tree.",
  technique="contract-based deductive verification: activation-trace postconditions generated from go/types, z3/cvc5",
  ref="4 C17"),
 'C18': dict(
  text="Deductive proof over the four functions of the anko command (external calls abstracted, a ghost counter of the lines the tool itself prints, the activation trace for calls to vm.Execute): runNonInteractive returns only 0, 2 or 4; "
       "0 exactly when the single vm.Execute call returned a nil error and the tool printed nothing itself; 4 exactly when it returned an error, with one diagnostic line; 2 when the file could not be read (no Execute call, one line); "
       "with -e the executed source is the flag's value; Execute runs on the global environment e with nil options (call-site obligation), so the verdict is the library's by construction; main passes runNonInteractive's result to os.Exit and starts "
       "the interactive loop only without -e; setupEnv builds a fresh environment and hands that same environment to core.Import; the import graph of the command contains the bundled package tables, core and vm (ground obligations on go/packages metadata).",
  note=TRUST + "Assumed: fmt.Println writes one line; os.Exit ends the process with its argument; ioutil.ReadFile/flag are the standard library's; the Go toolchain compiles the verified source faithfully. The content of the file is not tracked through string(bytes).",
  technique="contract-based deductive verification: postconditions over an activation trace and a ghost output counter, z3/cvc5",
  ref="4 C18"),
 'C19': dict(
  text="(1) range: deductive proof, for all int64 argument tuples, that the result is exactly the arithmetic progression from start by step strictly before stop (first element, constant difference, every element before stop, maximality in unbounded integers), "
       "empty when the step points away, and that it panics exactly for a zero step or a wrong argument count; the proof found the int64 wrap-around defect (unbounded loop), repaired by a fix: commit. "
       "(2) package tables: one ground obligation per entry of env.Packages / env.PackageTypes (about 590): the entry is bound to the Go object (resolved by go/types) whose name is the key, in the package whose import path is the table's name; two declared exceptions. "
       "(3) core.Import/ImportToX define into the given environment only. (4) the typed-slice conversions: toSlice's contract over the trace of its reflect stores - element k of the new slice receives the converted k-th input, or the zero value when it is nil or not convertible, and the new slice is stored into the target. "
       "(5) toInt on a string that is a decimal integer numeral is exactly strconv.ParseInt(s, 10, 64) (stated under the reflect fact that a string is not convertible to int). "
       "Not yet under functional contract: keys, typeOf/kindOf, the other scalar toX builtins, len (only their panic-freedom obligations are generated, unclaimed).",
  note=TRUST + "Assumed: strconv/fmt/reflect.Convert semantics; Go's identifier resolution (go/types) is the oracle for the tables.",
  technique="contract-based deductive verification: loop invariants for the progression, ground obligations from the typed AST for the tables, z3/cvc5",
  ref="4 C19"),
 'C01': dict(
  text="Deductive proof of panic-freedom obligations over 130 functions of parser (scanner/lexer), env, vm (every statement/expression evaluator, call machinery, conversions, operators) and core.Import: every nil dereference, index/slice bound, "
       "integer division, make size, type assertion, explicit panic, and every precondition of a trusted reflect operation that panics (Value.Int/Len/Index/Elem/IsNil/Field/MapIndex/Set.../Type.Elem/Key/In... stated as requires over the kind observers) is an obligation "
       "under the contracts of the callees; every `go` statement must start with a recover (spawn obligations) and every reflect call of a function value must sit inside a recover region (calleeMayPanic). About 93% of the generated obligations discharge and are claimed "
       "(3180 of 3414 when the baseline was written); the remaining ones are listed as unproved in the baseline, are NOT claimed and are reported as such in the evidence: they are mostly reflect assignability/convertibility preconditions "
       "(Value.Set, Convert, Call argument types, MapIndex key types, FuncOf limits), which need a model of Go's type relation that the contracts do not have. The proof effort found five genuine panics, all repaired by fix: commits "
       "(var with fewer values than names, *x = v on a non-pointer, member assignment on a map with non-string keys, f(...) spread with no arguments, go f.Call of a panicking Go function). "
       "The property as a whole (NO panic escapes) is therefore decided only up to the listed unproved obligations and the trusted goyacc driver; the check guards the claimed obligations against regressions.",
  note=TRUST + "Assumed: the goyacc driver yyParse and its semantic actions do not panic (not under contract); reflect operations panic only under the conditions written in /verif/trusted/reflect.spec; host functions bound into the environment may panic (calleeMayPanic is unconstrained) "
       "and must be contained by a recover region; runtime faults from memory/stack exhaustion and concurrent map access are outside (as in the property).",
  technique="contract-based deductive verification: safety obligations (nil/index/division/reflect-precondition/spawn) generated from go/ssa for every function under contract, z3/cvc5",
  ref="4 C01"),
 'C05': dict(
  text="Deductive proof, for all operand values, that the operator functions compute the property's table: spec functions give the result of each operator on the abstract views (rvInt, rvFloat, rvStr) of the unwrapped operands; postconditions of "
       "invokeAddOperator / invokeMultiplyOperator / invokeComparisonOperator / invokeUnaryExpr (selected by the operator string and the operand kinds) state: int op int is the wrapped 64-bit result (wrap64 of the exact integer result for + - *, Go's % with the zero-divisor error, "
       "& | as the uninterpreted band/bor of exactly the two operands, shifts with the count taken as unsigned), / is the float quotient of the two operands converted by i2f, + - * and < <= > >= are carried out on asF() (float64, SMT floating point) as soon as one operand is a float and exactly on integers otherwise, "
       "string + string/number concatenates with the default formatting (uninterpreted sprintI of the operand), string * n is strRepeat; the int64 cache is proved (loop invariant in the package initialiser + global invariant) to hold exactly value i-1 at slot i so the fast path int64Value returns the same value as the general path; "
       "conversion helpers toInt64/toFloat64/toString/tryTo* have case-table contracts. A seeded change (>= computed in float for large ints) and 7 mutants are caught.",
  note=TRUST + "Assumed: reflect.Value observers (Int/Float/String/Kind) are functions of the value; i2f/f2i (int<->float conversion), band/bor/shl/shr, fmt.Sprint and strings.Repeat are uninterpreted functions, so what is proved is that the code applies THE RIGHT operation to THE RIGHT operands in THE RIGHT domain, "
       "not bit-level facts about those operations (those are Go's).",
  technique="contract-based deductive verification: operator postconditions against spec functions over value observers, z3 (FP theory)/cvc5",
  ref="4 C05"),
 'C06': dict(
  text="Deductive proof that == and != decide one relation eqV, written from the property statement over the value observers: nil equals only nil; int64/int64, string/string, bool/bool compare by Go's ==; int/float pairs compare numerically in float64 (feq of asF, i.e. exactly when <= and >= both hold); "
       "pointer/interface operands are compared through what they hold. vm.equal's postcondition is result == eqV(l, r) on nil and core pairs, invokeComparisonOperator's == returns exactly eqV and != exactly its negation on the operands as evaluated (activation trace), isNil/isNum/tryToBool have definitional contracts, "
       "and the lemma 'eqV is symmetric' is discharged by the solver. The proof found int==float comparing string renderings; repaired by a fix: commit. "
       "`switch` and `in` are specified with the relation vm.equal computes (equalR): a switch runs the first case whose expression is equalR to the subject, `x in list` is true exactly when some element of the list is equalR to x. "
       "Two slices or two maps are equal exactly when reflect.DeepEqual of what the operands hold says so (no identity shortcut). "
       "NOT decided: that DeepEqual is the structural relation the statement means (trusted; assumed symmetric), string-vs-number equality (falls under the abstract eqOther).",
  note=TRUST + "Assumed: eqOther (DeepEqual and the mixed string/number path) is symmetric; reflect observers are functions of the value.",
  technique="contract-based deductive verification: postcondition result == eqV(...) plus a symmetry lemma, z3/cvc5",
  ref="4 C06"),
 'C07': dict(
  text="Deductive proof over the per-activation trace of direct invokeExpr calls (a ghost sequence of callee, argument, results maintained by the generator at every call instruction): for binary operators, list and map literals, item/slice/len expressions, ternary, nil-coalescing, unary, return lists, var right-hand sides, "
       "makeCallArgs/callVMFunctionDirect/anonCallExpr: the k-th evaluation of the activation is of the k-th operand in source order (evalsPrefix as loop invariant and postcondition: so no operand is evaluated twice or out of order), evaluation stops at the first operand that failed (okButLast), "
       "&& / || evaluate the right operand only when the left does not decide (ncalls()==1 exactly in the short-circuit case), ?: evaluates exactly one branch chosen by the truthiness of the condition, ?? evaluates the right side only when the left is nil or failed. "
       "A change that evaluates an operand twice, swaps two operands, evaluates after an error or evaluates a skipped operand fails a named postcondition or invariant. "
       "multi-assignment: all right-hand sides are evaluated first, each once, left to right, before any target is assigned; `go` evaluates its arguments before spawning (C16) and `defer` evaluates them at the defer statement (C09). "
       "NOT yet under trace contracts: slice-expression bounds, the order of the target assignments, the reflect (>=5 parameters, variadic) call path beyond makeCallArgs, conversion-error ordering for Go parameters.",
  note=TRUST + "The trace is local to an activation and is never assumed about a callee (a callee's trace-based postcondition is proved where it is defined and not used at call sites). Assumed: AST well-formedness (len(Keys)==len(Values)).",
  technique="contract-based deductive verification: ghost activation trace with loop invariants over evaluation order, z3/cvc5",
  ref="4 C07"),
 'C20': dict(
  text="Deductive proof for the operator positions: every postcondition of the four operator evaluators (binary add/multiply/comparison, unary) is stated over unwrap(operand) - the value an interface-typed element or result wraps - and never over the operand as obtained, so it holds identically for a direct and a wrapped operand; "
       "a code path that inspects the kind of the operand before unwrapping fails it (this is how the unary-operator defect was found; repaired by a fix: commit). "
       "The same for four value positions outside the operators, stated over unwrap(operand): `*x`, `x in list`, `close(x)` and the spread operand of `f(xs...)`; all four inspected the operand's kind before unwrapping and failed on a slice element (found by these obligations, repaired by four fix: commits). "
       "NOT decided here: index/slice/member/range/assignment positions and values returned by Go functions declared interface{} (those evaluators already unwrap, but are under safety and scope contracts only); dynamic type preservation through containers is not expressed.",
  note=TRUST + "Assumed: reflect.Value.Elem of a non-nil interface value yields the wrapped value (trusted reflect contract).",
  technique="contract-based deductive verification: operator postconditions over unwrap(operand), z3/cvc5",
  ref="4 C20"),
 'C03': dict(
  text="Four groups of obligations over the real parser package; only the goyacc LR driver loop is trusted. "
       "(1) LR table lemma: the constant tables goyacc compiled into parser.go (yyPact, yyAct, yyChk, yyDef, yyExca) are read from the typed AST of /repo's working tree, the productions from parser.go.y (numbering cross-checked against yyR2); lrAction(state, token) transcribes the driver's table lookup; "
       "for every operator production p (binary, unary, ?:, ??, in) and every token b that can continue an expression (all binary operators, ?, ??, in, and the postfix starters ( [ .), ONE obligation: in EVERY LR state in which p is reducible the action on b is what the operator table of the property statement dictates "
       "(optable pragmas in parser/zz_contracts_verif.go, not the %left/%right lines): reduce p when p binds tighter or equally-and-left-associative, shift otherwise; 575 obligations, solver-evaluated over the table entries; covers all contexts and nesting depths because an LR decision depends on the state only. "
       "A failed fact (p, b) is replayed on the real parser: `a OP1 b OP2 z` and its explicitly parenthesised form are parsed with parser.ParseSrc and the trees compared (replay/lrtable). One known finding: chained `in` is right-associative (pinned by the existing suite). "
       "(2) Semantic actions: on every run the `case N:` bodies of yyParserImpl.Parse are extracted mechanically from parser.go (byte for byte, into an in-memory overlay; dropped: the driver loop, the `yyDollar = yyS[...]` slice statement - a length precondition instead -, yyVAL becomes a pointer parameter) and verified like any other function against contracts keyed by the PRODUCTION TEXT and generated from a table of the language's node shapes: "
       "51 productions - all 17 binary operators, the 5 unary forms, ?:, ??, in, parentheses, index, member, identifier, len, the 10 slice forms, the 4 call forms, the two number literal forms - build a fresh node of the right type with each operand in the slot the production names (LHS/RHS/Expr/Item/Index/Begin/End/Cap/SubExprs/VarArg, operator string); a swapped $1/$3 or a wrong operator string fails `yyAction_N/post/node`. The number literal actions pass exactly the spelled digits (with the '-' of the production) to toNumber and store its result. "
       "(3) Operator recognition: 44 postconditions of Scanner.Scan generated from the token table (every two-character operator, `...`, `= <-`, every single-character token, each first character followed by something else): if the source at the token start (ghost posOffset = offset where Scan took the token's position) spells the operator, Scan returns exactly that token, its literal, and advances past it. "
       "(4) Literals: toNumber's contract fixes which digits, base and sign reach strconv for every spelling (0x/-0x base 16, 0b/-0b base 2, '.' or exponent float64, else base 10) and that a strconv error is returned unchanged with the nil value; the proof found that -0b literals were rejected (repaired by a fix: commit). "
       "NOT decided: the remaining ~115 productions (statements, maps, make/new, function literals, lets, channels), keyword recognition through the opName map, the escape table of scanString and the digit grouping of scanNumber, that a toNumber error reaches yylex.Error, the second clause 'the same value'.",
  note=TRUST + "Assumed: goyacc's driver implements lrAction and hands action N exactly the slots of production N (yyDollar[1..k]); the step from 'every precedence decision is the table's and every action builds its node' to 'the tree of every expression' is the standard LR argument (not machine-checked); strconv.ParseInt/ParseFloat are the oracle for what a digit string denotes; unicode.IsLetter is false on ASCII non-letters.",
  technique="contract-based deductive verification: ground lemma over the compiled LR tables against the property's operator table; postconditions on the extracted semantic actions, on Scan and on toNumber; z3/cvc5; replay of table facts on the real parser",
  ref="8.3 C03"),
 'C16': dict(
  text="Deductive proof of the interpreter's channel GLUE - what the vm itself does around Go's channel operations - over the activation trace (with reflect.Select and the element conversion recorded in it): "
       "`ch <- v` converts v with convertReflectValueToType to the element type of the channel the left operand denotes and hands exactly that converted value to ONE reflect.Select whose send case is on that channel (ctx.Done() first, C02); `<- ch` receives from the channel the operand denotes; "
       "a receive that arrives yields the received value, a receive that finds the channel closed and drained yields nil with no error, an interruption yields ErrInterrupt; `v, ok = <-ch` assigns ok the arrived/closed flag and assigns v only when a value arrived (closed: v is not assigned at all); "
       "`for v in ch` receives from the channel it iterates, runs the body once per received value and ends without error exactly when the channel is closed and drained (or on break/return/error/interrupt); close(x) closes exactly the channel x denotes; "
       "send on a closed channel and double close are inside a recover region (trusted panic conditions of reflect.Select send cases and Value.Close, obligations shared with C01) so they surface as errors; "
       "`go f(args)` evaluates every argument (direct path: all operands in order; reflect path: makeCallArgs completed without error) in the calling goroutine before the goroutine is started, and the direct path hands exactly those values, in order, with the caller's context to the goroutine (the operands of the go statement are the evaluated values). "
       "NOT decided and not decidable by per-function contracts: that every value sent is received exactly once in FIFO order and that pipelines deliver all items under every schedule - these are properties of Go's channels and scheduler (the language runtime is trusted); no schedules are explored.",
  note=TRUST + "Assumed: Go channel semantics (FIFO, exactly-once delivery, close semantics) as implemented by the runtime behind reflect.Select/Close; the encoding of a Select outcome in the trace (0 value arrived or send done, 1 closed, 2 interrupted) is a transcription of reflect.Select's documented results.",
  technique="contract-based deductive verification: call-site and trace postconditions on the channel evaluators, z3/cvc5",
  ref="8.3 C16"),
 'C10': dict(
  text="Partial deductive proof for the container evaluators, over the activation trace (operand evaluations, reflect stores, conversions): "
       "READS - x[i] on a slice or array with an integer index reads exactly element i of what x denotes (unwrapped) when 0 <= i < len, and is an error with a nil result when the index is out of range (negative, equal to or beyond the length; strings alike); any other operand kind is an error; "
       "a map read never fails: a nil map, a key that cannot be converted to the key type, an unhashable key and a missing key read as nil, a present key reads the stored value; `in` is membership by vm.equal (shared with C06); "
       "WRITES - x[i] = v on a slice: in range, exactly ONE reflect store happens, into element i, of v converted to that element's type; at i == len the converted value is appended (element type of the slice) and assigned back; "
       "every error (non-numeric or out-of-range index, unassignable element, inconvertible value) leaves the container untouched: no store is made; m[k] = v writes only with a converted, hashable key and never writes the map when it fails; delete(m, k) removes (SetMapIndex with the zero Value) only a converted hashable key from the map m denotes and does not write on error. "
       "`a + b` / `a += b` on two slices of the same element type is exactly reflect.AppendSlice(a, b) - Go's append(a, b...) with Go's own sharing and growth rules, never a shortcut. "
       "x[lo:hi] on a slice is exactly reflect.Slice3(lo, hi, cap(x)) of what x denotes - Go's x[lo:hi] with its storage sharing and capacity. "
       "NOT decided: the bound checks of slicing and the 3-index and string forms, append with element conversion, len, string element assignment, struct fields (read back / unknown field / conversion), reference semantics on assignment and call, typed literals and make; "
       "that the converted value HAS the declared type is reflect's Convert/MakeSlice/Zero typing (not stated as a postcondition of convertReflectValueToType beyond its identity and Go-conversion cases).",
  note=TRUST + "Assumed: reflect.Value.Index/MapIndex/Set/SetMapIndex/Append behave as documented (element i, key lookup, store, append); a reflect store is the only way the evaluators change a container (the trace records Set, SetMapIndex and Append only in functions that opt in).",
  technique="contract-based deductive verification: postconditions over the activation trace of reflect reads/stores, z3/cvc5",
  ref="8.3 C10"),
 'C11': dict(
  text="Thin, partial deductive proof of four links of the Go boundary: (1) env.DefineValue stores exactly the given reflect.Value under the name and env.GetValue returns exactly the stored one (identity; whole-map postconditions of C12); "
       "(2) convertReflectValueToType returns its argument unchanged when its type already is the target type or the target is interface{}, and otherwise - when Go's reflect says the value is convertible - returns exactly reflect's own conversion to the target type; "
       "(3) processCallReturnValues hands back all results of a Go function: none -> nil, one -> that value, and never manufactures an error for a Go function; (4) argument building evaluates the arguments once, in order (C07) and spreads the list the last operand denotes (C20); "
       "(5) member syntax on a Go struct value (directly, behind an interface or through one pointer) yields the method of that name when there is one, and otherwise the exported field of that name at the index path reflect.Type.FieldByName reports - promoted fields of embedded structs included. "
       "(6) the callback adapter (a script function handed to Go as a func value) always inspects the (value, error) pair the script function returned and returns normally only when the error is nil - otherwise it panics with the error, which the recover region of the enclosing script call turns into that call's error; a single declared result is the value converted to the declared type. "
       "NOT decided (see the additions at the end for what has since been decided): string -> byte/rune, pointer conversion; the arguments the adapter passes and several declared results; that each argument is converted to ITS parameter type in all four call shapes; several results as a list; member WRITES, pointer-receiver methods on addressable values and copies. "
       "These need a typed model of reflect (assignability/convertibility relation, method sets) that the contracts do not have.",
  note=TRUST + "Assumed: reflect.Value.Convert is Go's conversion; reflect.Value.Type / Type.ConvertibleTo are functions of their arguments.",
  technique="contract-based deductive verification: postconditions on the conversion and result-normalisation helpers, z3/cvc5",
  ref="8.3 C11"),
 'C15': dict(
  text="Deductive proof, for all inputs, of the scanner/lexer half of the property: every Scanner method, Lexer.Lex/Error, Parse and ParseSrc "
       "is symbolically executed from the SSA of /repo's working tree against contracts kept in parser/zz_contracts_verif.go; obligations: memory "
       "safety of every index/slice/deref, the scanner object invariant (0<=lineHead<=offset<=len(src), no newline between lineHead and offset, "
       "line == number of newlines before offset), termination variants on every scanner loop including the comment/retry cycle, the position "
       "returned with every token lies inside the text (line within the text's lines, column at most one past the end of its line), every error "
       "stored by the lexer is a *parser.Error carrying such a position, frames (only offset/lineHead/line change). Lemmas about the newline "
       "count are proved by induction. The clause 'concatenation law' and termination of the goyacc driver are NOT decided (no per-call contract expresses them).",
  note=TRUST + "The goyacc LR driver (yyParserImpl.Parse, yyParse and its helpers) is trusted: assumed to touch the lexer only through Lex/Error and the semantic actions "
       "and to call Error only after a Lex. unicode.IsLetter is assumed false on negative runes and ASCII non-letters.",
  technique="contract-based deductive verification: weakest-precondition style VCs from go/ssa, discharged by z3/cvc5",
  ref="4 C15"),
}

# Session-3 additions (2026-09-24): what the contracts added after seed rounds 5 and 6 decide; appended to the texts above.
ADDENDA = {
 'C01': "Added: the spread loop of makeCallArgs indexes the spread list (a reflect panic escaping vm.Execute for f(xs...) on a Go function taking two or more parameters from the list was found by the new conversion-site clause and repaired, fix: commit); results of reflect.Call are valid values (trusted) and processCallReturnValues / reflectValueSlicetoInterfaceSlice require and use that; CanInterface's panic condition is an obligation; dereferencing a nil pointer is an error (a second escaping reflect panic, `*a[0]` on an element of make([]*int64, 1), repaired by a fix: commit - its obligation 'the result is a valid value' had never discharged); the binding loops carry 'every value handed on is valid' invariants, so about 100 more validity / index obligations discharge (3375 claimed, about 190 still unproved and not claimed).",
 'C02': "Added: the fixed-arity wrappers funcExpr$2..$6 and the reflect.MakeFunc translator funcExpr$7 are under contract: each runs the body runner exactly once under the context IT WAS CALLED WITH (never the defining run's context) and returns its (value, error) pair.",
 'C03': "Added: scanNumber's loops carry the functional invariant 'the literal text is the source text of the numeral rune for rune, with E written e and 0X/0B written 0x/0b; a plain numeral consists of digits, '.', 'e' and signs only' (hex, binary and decimal branch), so the spelling toNumber's contract classifies is the spelling the scanner produces; Scan proves scanNumber's precondition (at a digit). Not decided: that string(result) has those runes (Go's conversion), the link token -> semantic action (trusted driver).",
 'C04': "Added: plain assignment to an identifier calls Env.SetValue on the CURRENT scope with the identifier's name and the assigned value and, exactly when that fails, Env.DefineValue on the current scope (trace of the two env calls); with a dot-free name it cannot fail.",
 'C05': "Added: the pre-boxed small integers are not addressable (cache invariant proved for the initialiser, int64Value's result is never addressable), so a fast-path value is indistinguishable from boxing on demand also under &x.",
 'C07': "Added: binary arithmetic/comparison operators, x[i] and `in` evaluate their second operand whenever the first one succeeded (no operand is skipped on a shortcut); x[lo:hi:max] evaluates x, lo, hi, max once each in source order, each only after the previous succeeded; delete(m, k) evaluates m then k; in makeCallArgs every conversion of an argument to its Go parameter type happens right after the evaluation of that operand and before the next operand is evaluated (a failing conversion ends the evaluation of the operands after it).",
 'C10': "Added: delete on every non-nil map (empty or not) converts the key to the key type and checks hashability: a bad key is an error and nothing is written, a good key is deleted by exactly one SetMapIndex; len(x) is Go's len of what x denotes (int64) for arrays, channels, maps, slices, strings and an error otherwise.",
 'C11': "Added: several results of a Go function come back as a list whose element k is result k as Go returned it (typed nils stay typed; loop invariant + call-site clause of reflectValueSlicetoInterfaceSlice, used by processCallReturnValues); slices/arrays and maps crossing to another container type are converted element by element / entry by entry with nothing skipped (activation trace of conversions and reflect stores; map iteration via MapIter.Next); the conversion dispatch: interface-typed nil -> zero value of the target type, interface-typed value -> conversion of what it wraps, slice/array and map targets -> the element-wise converters; every argument conversion in makeCallArgs acts on the operand just evaluated (or an element of the spread list) and targets the type of the parameter it is bound to; the function wrappers pass exactly the received arguments, in order, to the body runner.",
 'C06': "Added: a number and a string (not spelled with a 0x / 0b prefix) are equal exactly when the string is a numeral denoting the number: decided in the integer domain when the numeral is an integer (exact over the whole int64 range), in float64 otherwise, in BOTH operand orders; a non-numeral string equals no number. Two floats of different width are compared through one rendering of each operand (numToString), a relation independent of the operand order. The string/number clause found a genuine defect (the number-left order went through float64: 9007199254740992 == \"9007199254740993\" was true and == was not symmetric), repaired by a fix: commit.",
 'C12': "Added (ghost visited set of Go's map iteration, DESIGN 8.2): Copy binds EXACTLY what the source binds - nothing invented, nothing left out, same values and types; GetValueSymbols / GetTypeSymbols hold every bound name exactly once and nothing else; DefineValue / DefineReflectType keep an existing map and create a fresh one lazily.",
 'C09': "Added: every invocation of a script function starts with its OWN, initially empty list of deferred calls (nil or freshly allocated - never a buffer shared between invocations of the same function value).",
 'C15': "Added: the semantic actions of the keyword literals true / false / nil build a FRESH literal node per occurrence (no node shared between trees or between ParseSrc calls, whose position a later parse would overwrite) holding the value the keyword denotes.",
 'C14': "Added: the shared pre-boxed integers are not addressable (no script can obtain a pointer into process-wide storage through &x); import builds a fresh child scope of its own and defines every entry of the package table there under its name with its value (ghost visited set: nothing skipped), the shared table is only read.",
 'C19': "Added: keys (one entry per key reflect reports, entry k = key k), typeOf / kindOf (Go's type / kind name, \"nil\" for nil), toString (fmt.Sprint of the value unless []byte), toInt / toFloat (full case table over nil, Go-convertible values, numeral strings via strconv, bools, everything else 0), toChar (Go's string(rune) for every code point), toRune(\"\") == 0.",
 'C20': "Added: for-in dispatches on what its operand DENOTES (unwrap(operand)) and strips nothing else (a pointer is an error whatever its provenance); switch subject/case matching by vm.equal whatever the provenance (clauses shared with C08/C06); len and member access over unwrap(operand).",
}
for _k, _v in ADDENDA.items():
    CLAIMS[_k]['text'] += ' ' + _v

def main():
    repo_commits = subprocess.run(['git','-C','/repo','log','--format=%H %s'],capture_output=True,text=True).stdout.strip().split('\n')
    hooks = [l.split()[0] for l in repo_commits if 'verif hook' in l]
    checks = []
    for p in props:
        c = CLAIMS.get(p['id'])
        if not c: continue
        checks.append({
            'property_id': p['id'],
            'quick_cmd': f"/verif/bin/govc check --property {p['id']} --tier quick",
            'thorough_cmd': f"/verif/bin/govc check --property {p['id']} --tier thorough",
            'evidence_file': f"/verif/evidence/{p['id']}.json",
            'replay_cmd_template': '/verif/bin/govc replay {path}',
            'engine': 'govc',
            'level_claimed': {'category': c.get('category','proof'), 'text': c['text'], 'design_ref': 'DESIGN.md section ' + c['ref']},
            'level_note': c['note'],
            'technique': c['technique'],
        })
    na = []
    NA = json.load(open(f'{V}/tools/not_applicable.json')) if os.path.exists(f'{V}/tools/not_applicable.json') else {}
    for p in props:
        if p['id'] in CLAIMS: continue
        na.append({'property_id': p['id'], 'reason': NA.get(p['id'], 'contracts not completed yet: engine and contracts under construction (DESIGN.md section 7); no check is claimed until its obligations discharge on the unchanged tree')})
    m = {
     'version': 1,
     'setup_cmd': 'cd /verif/engine && GOFLAGS=-mod=mod GOPROXY=off GOSUMDB=off GOTOOLCHAIN=local go build -o /verif/bin/govc ./cmd/govc',
     'hooks': {'guard': 'verif',
               'enable': 'go/packages BuildFlags -tags=verif: the hooks are comment-only contract files (zz_contracts_verif.go, //go:build verif); no executable code is added',
               'baseline_off_cmd': 'cd /repo && go test -vet=off -count=1 -timeout 25m ./...',
               'source_commits': hooks, 'add_only': True},
     'engines': [{'name': 'govc', 'path': '/verif/engine', 'serves_properties': sorted(CLAIMS),
                  'kind_free_text': 'self-built verification-condition generator over go/ssa (NaiveForm) of /repo\'s working tree; contracts in //go:build verif comment files in /repo; obligations discharged by z3 5.1.0 / z3 4.8.12 / cvc5 1.0.3'}],
     'checks': checks,
     'not_applicable': na,
     'notes': 'Technique family: contract-based deductive verification of the real code. See DESIGN.md (section 8 is the as-built record). Exit codes: 0 held, 1 VIOLATION, 2 engine problem. '
              'A VIOLATION line ends with no-failing-input-found unless a replay reproduced the failure on the real code: LR table facts are replayed from their witness (replay/lrtable); '
              'failed obligations of the operator evaluators, of core range and of astutil run a BOUNDED search harness (replay/operators, replay/range, replay/walker) that prints a concrete failing input when it finds one - labelled as bounded search in the replay file, never counted as proof. '
              'Claimed obligations are those that discharged when /verif/baseline/<id>.json was written; generated obligations that never discharged are listed there as unproved, are not claimed and are counted separately in the evidence.',
    }
    json.dump(m, open(f'{V}/MANIFEST.json','w'), indent=1)
    print('claimed:', sorted(CLAIMS), 'hooks:', len(hooks))

main()
