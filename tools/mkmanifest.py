#!/usr/bin/env python3
"""Regenerates /verif/MANIFEST.json from the table below (claimed properties) and properties.jsonl."""
import json, subprocess, os

V = '/verif'
props = [json.loads(l) for l in open(f'{V}/properties.jsonl')]

TRUST = ("Trusted base: go/ssa IR construction (x/tools v0.29.0), govc's SSA-to-SMT translation, the SMT solvers, "
         "the trusted standard-library contracts in /verif/trusted/*.spec, and the meta-argument that per-function proofs "
         "compose over the program tree. ")

CLAIMS = {
 'C15': dict(
  text="Deductive proof, for all inputs, of the scanner/lexer half of the property: every Scanner method, Lexer.Lex/Error, Parse and ParseSrc "
       "is symbolically executed from the SSA of /repo's working tree against contracts kept in parser/zz_contracts_verif.go; obligations: memory "
       "safety of every index/slice/deref, the scanner object invariant (0<=lineHead<=offset<=len(src), no newline between lineHead and offset, "
       "line == number of newlines before offset), termination variants on every scanner loop including the comment/retry cycle, the position "
       "returned with every token lies inside the text (line within the text's lines, column at most one past the end of its line), every error "
       "stored by the lexer is a *parser.Error carrying such a position, frames (only offset/lineHead/line change). Lemmas about the newline "
       "count are proved by induction. The clause 'concatenation law' and termination of the goyacc driver are NOT decided (no per-call contract expresses them).",
  note=TRUST + "The goyacc LR driver (yyParserImpl.Parse, yyParse and its helpers) is trusted: assumed to touch the lexer only through Lex/Error and the semantic actions "
       "and to call Error only after a Lex. unicode.IsLetter is assumed false on negative runes and ASCII non-letters.",
  technique="contract-based deductive verification: weakest-precondition style VCs from go/ssa, discharged by z3/cvc5",
  ref="4 C15"),
}

def main():
    repo_commits = subprocess.run(['git','-C','/repo','log','--format=%H %s'],capture_output=True,text=True).stdout.strip().split('\n')
    hooks = [l.split()[0] for l in repo_commits if 'verif hook' in l]
    checks = []
    for p in props:
        c = CLAIMS.get(p['id'])
        if not c: continue
        checks.append({
            'property_id': p['id'],
            'quick_cmd': f"/verif/bin/govc check --property {p['id']} --tier quick",
            'thorough_cmd': f"/verif/bin/govc check --property {p['id']} --tier thorough",
            'evidence_file': f"/verif/evidence/{p['id']}.json",
            'replay_cmd_template': '/verif/bin/govc replay {path}',
            'engine': 'govc',
            'level_claimed': {'category': c.get('category','proof'), 'text': c['text'], 'design_ref': 'DESIGN.md section ' + c['ref']},
            'level_note': c['note'],
            'technique': c['technique'],
        })
    na = []
    NA = json.load(open(f'{V}/tools/not_applicable.json')) if os.path.exists(f'{V}/tools/not_applicable.json') else {}
    for p in props:
        if p['id'] in CLAIMS: continue
        na.append({'property_id': p['id'], 'reason': NA.get(p['id'], 'contracts not completed yet: engine and contracts under construction (DESIGN.md section 7); no check is claimed until its obligations discharge on the unchanged tree')})
    m = {
     'version': 1,
     'setup_cmd': 'cd /verif/engine && GOFLAGS=-mod=mod GOPROXY=off GOSUMDB=off GOTOOLCHAIN=local go build -o /verif/bin/govc ./cmd/govc',
     'hooks': {'guard': 'verif',
               'enable': 'go/packages BuildFlags -tags=verif: the hooks are comment-only contract files (zz_contracts_verif.go, //go:build verif); no executable code is added',
               'baseline_off_cmd': 'cd /repo && go test -vet=off -count=1 -timeout 25m ./...',
               'source_commits': hooks, 'add_only': True},
     'engines': [{'name': 'govc', 'path': '/verif/engine', 'serves_properties': sorted(CLAIMS),
                  'kind_free_text': 'self-built verification-condition generator over go/ssa (NaiveForm) of /repo\'s working tree; contracts in //go:build verif comment files in /repo; obligations discharged by z3 5.1.0 / z3 4.8.12 / cvc5 1.0.3'}],
     'checks': checks,
     'not_applicable': na,
     'notes': 'Technique family: contract-based deductive verification of the real code. See DESIGN.md. Exit codes: 0 held, 1 VIOLATION, 2 engine problem.',
    }
    json.dump(m, open(f'{V}/MANIFEST.json','w'), indent=1)
    print('claimed:', sorted(CLAIMS), 'hooks:', len(hooks))

main()
