#!/usr/bin/env python3
"""mkseedprompts.py DIR FOCUS.json: writes DIR/<seed-id>.prompt.md for every seed id in FOCUS.json ({"C03-f": "focus text", ...}).
The prompt contains ONLY the property's title and statement (from properties.jsonl), the path of the agent's scratch worktree
DIR/<seed-id> and the task rules - nothing else from /verif."""
import json, sys
d, fj = sys.argv[1], sys.argv[2]
props = {}
for l in open('/verif/properties.jsonl'):
    p = json.loads(l); props[p['id']] = p
focus = json.load(open(fj))
T = '''# Task: seed a subtle property-breaking change into mattn/anko

You are given one semantic property of mattn/anko (an embeddable scripting language for Go) and a scratch git worktree of the repository at `{wt}`. Work ONLY inside that directory. Never touch /repo or /verif, and do not read anything under /verif.

## The property ({pid}: {title})

{statement}

## What to produce

Make a small change to the (non-test) Go source of anko in `{wt}` that **breaks this property** while
1. the module still compiles (`go build ./...`), and
2. the existing test suite still passes (`go test -vet=off -count=1 ./...` - `TestRunInteractive` in the root package may fail also without your change; ignore it), and
3. the change looks like something a maintainer could plausibly write (an optimisation, a refactor, a "simplification", a fast path, a cache), not sabotage with an obvious marker.

The breakage must need **something specific to manifest** - an unusual input, a boundary value, a particular multi-step sequence of operations, a rarely used statement form, a particular interleaving, or two cooperating sites that each look fine alone - not something ordinary use would expose at once. Please aim at this part of the statement: {focus}.

Also write a demonstration: ONE new Go test file `zz_seed_demo_test.go` in the package directory most relevant (e.g. `{wt}/vm/`), containing a test whose name starts with `TestSeedDemo`, that **fails with your change and passes without it** (verify both: `git diff -- <changed files> > /tmp/x.diff; git apply -R /tmp/x.diff`, run, then re-apply). The test must check the property as stated (compare against what the statement says should happen), not merely detect your edit.

Rules:
- Every shell command needs: `export GOFLAGS=-mod=mod GOPROXY=off GOSUMDB=off GOTOOLCHAIN=local` (there is no network).
- Do not edit or delete existing `*_test.go` files.
- Do not commit; leave your change as uncommitted modifications in the worktree plus the one new untracked test file. Leave no other untracked files.
- Some files named `zz_contracts*` show as deleted in `git status`; ignore that, do not restore them.
- Keep the change minimal (ideally under 30 changed lines).

## Report back

Reply with: the files/functions changed, a one-paragraph description of the change, exactly what is needed for it to manifest, and the commands you ran with their outcome (build, suite, demo with change = FAIL, demo without change = PASS).
'''
for sid, f in focus.items():
    p = props[sid[:3]]
    open(f'{d}/{sid}.prompt.md', 'w').write(T.format(wt=f'{d}/{sid}', pid=p['id'], title=p['title'], statement=p['statement'], focus=f))
print(len(focus), 'prompts')
