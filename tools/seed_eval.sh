#!/bin/bash
# usage: seed_eval.sh <seed-id> <worktree> <property> [more properties...]
# Confirms a seeded change in its scratch worktree (build, suite, demo fails with / passes without), stores it under
# /verif/seeded/<seed-id>/, then applies it to /repo, runs the property checks, and undoes it.
set -u
export GOFLAGS=-mod=mod GOPROXY=off GOSUMDB=off GOTOOLCHAIN=local
id=$1; wt=$2; shift 2; props="$@"
out=/verif/seeded/$id; mkdir -p $out
cd $wt || exit 2
git diff -- . ':!*_test.go' ':!*zz_contracts*' > $out/patch.diff
demo=$(git status --porcelain | grep '^??' | awk '{print $2}' | grep _test.go | head -1)
[ -z "$demo" ] && { echo "no demo test found"; exit 2; }
cp $demo $out/$(basename $demo)
pkg=./$(dirname $demo)
build=$(go build ./... 2>&1 | tail -1)
mv $demo /tmp/seed_demo_hold.go
suite=$(go test -count=1 ./... 2>&1 | grep -E "^(FAIL|ok|---)" | grep -v "TestRunInteractive" | grep -E "^FAIL|^--- FAIL" | grep -v "github.com/mattn/anko\s" | tr '\n' ';')
mv /tmp/seed_demo_hold.go $demo
with=$(go test -count=1 -run 'Seed|Demo' $pkg 2>&1 | tail -1)
git apply -R $out/patch.diff
without=$(go test -count=1 -run 'Seed|Demo' $pkg 2>&1 | tail -1)
git apply $out/patch.diff
echo "build: [$build] suite-failures: [$suite] demo-with-change: [$with] demo-without: [$without]"
cd /repo && git apply $out/patch.diff || { echo "patch does not apply to /repo"; exit 2; }
results=""
for p in $props; do
  r=$(cd /verif && GOVC_EVIDENCE=/tmp/seed-evidence ./bin/govc check --property $p 2>&1)
  rc=$?
  v=$(echo "$r" | grep -c '^VIOLATION')
  first=$(echo "$r" | grep -A1 '^VIOLATION' | grep obligation | head -2 | cut -c1-200 | tr '\n' '|')
  results="$results $p:exit=$rc,violations=$v [$first]"
done
git -C /repo apply -R $out/patch.diff || echo "WARNING: could not revert patch in /repo"
rm -rf /tmp/seed-evidence
echo "checks:$results"
cat > $out/meta.json <<META
{"seed": "$id", "properties_checked": "$props", "build": "$build", "suite_failures_other_than_TestRunInteractive": "$suite", "demo_with_change": "$with", "demo_without_change": "$without", "check_results": "$(echo $results | sed 's/"/\\"/g')"}
META
