#!/usr/bin/env python3
"""Validates MANIFEST.json and every evidence file against the schemas, and the evidence accounting (discharged == obligations)."""
import json, sys, os
sys.path.insert(0, '/opt/veriftools/pyvenv/lib/python3.11/site-packages')
import jsonschema
V = '/verif'
m = json.load(open(f'{V}/MANIFEST.json'))
jsonschema.validate(m, json.load(open('/root/.vp/MANIFEST.schema.json')))
es = json.load(open('/root/.vp/EVIDENCE.schema.json'))
bad = 0
for c in m['checks']:
    p = c['evidence_file']
    if not os.path.exists(p):
        print('MISSING', p); bad += 1; continue
    e = json.load(open(p))
    try:
        jsonschema.validate(e, es)
    except Exception as ex:
        print('INVALID', p, str(ex)[:200]); bad += 1; continue
    cov = e.get('coverage', {})
    if cov.get('obligations') != cov.get('discharged'):
        print('ACCOUNTING', p, cov.get('obligations'), cov.get('discharged')); bad += 1
    print(c['property_id'], e.get('tier'), 'claimed', cov.get('obligations'), 'generated', cov.get('obligations_generated'), 'not-claimed', cov.get('obligations_not_claimed'), 'violations', e.get('violations'), 'known', cov.get('known_findings_seen'))
print('problems:', bad)
sys.exit(1 if bad else 0)
