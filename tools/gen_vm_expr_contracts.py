#!/usr/bin/env python3
"""Generates /repo/vm/zz_contracts_expr_verif.go: the per-function contract headers of the expression evaluators
and helpers of package vm (shared templates + per-function extras). Run after editing EXTRA below."""
exprs_with_param = ["invokeArrayExpr","invokeMapExpr","invokeDerefExpr","invokeAddrExpr","invokeUnaryExpr","invokeMemberExpr","invokeItemExpr","invokeSliceExpr","invokeLetsExpr","invokeTernaryOpExpr","invokeNilCoalescingOpExpr","invokeLenExpr","invokeImportExpr","invokeMakeExpr","invokeMakeTypeExpr","invokeChanExpr","invokeIncludeExpr",
 "invokeLetMemberExpr","invokeLetItemExpr","invokeLetItemSlice","invokeLetItemMap","invokeLetItemString","invokeLetSliceExpr","invokeLetDerefExpr"]
ops = ["invokeBinaryOperator","invokeComparisonOperator","invokeAddOperator","invokeMultiplyOperator"]
noparam = ["invokeExpr","invokeLetExpr","invokeOperator","funcExpr","anonCallExpr","callExpr"]
pure = ["isNil","float64Value","numToString","isIntKind","isNum","equal","isHashable","hashableTypeString","getMapIndex","appendSlice","makeValue","precedenceOfKinds",
 "toString","toBool","tryToBool","toFloat64","tryToFloat64","toInt64","tryToInt64","toInt","tryToInt","reflectValueSlicetoInterfaceSlice","convertReflectValueToType","convertSliceOrArray","convertVMFunctionToType","convertMap","checkIfRunVMFunction","processCallReturnValues","int64Value"]
ERR = ["appendSlice","makeValue","convertReflectValueToType","convertSliceOrArray","convertVMFunctionToType","convertMap","tryToBool","tryToFloat64","tryToInt64","tryToInt"]

II = "rvKind(opL()) == reflect.Int64 && rvKind(opR()) == reflect.Int64"
NUMF = "((rvKind(opL()) == reflect.Float64 && (rvKind(opR()) == reflect.Float64 || rvKind(opR()) == reflect.Int64)) || (rvKind(opL()) == reflect.Int64 && rvKind(opR()) == reflect.Float64))"
NUM = "(rvKind(opL()) == reflect.Int64 || rvKind(opL()) == reflect.Float64) && (rvKind(opR()) == reflect.Int64 || rvKind(opR()) == reflect.Float64)"
OK2 = "runInfo.err == nil && ncalls() == 2"
ORDER = ['//@ ensures [C07] order: runInfo.err == nil && !shortCircuit() ==> ncalls() == 2 && arg(0) == operator.LHS && arg(1) == operator.RHS',
         '//@ ensures [C07] prefix: ncalls() <= 2 && (ncalls() >= 1 ==> arg(0) == operator.LHS) && (ncalls() == 2 ==> arg(1) == operator.RHS && res(0) == nil)']
def order(short=False):
    o = list(ORDER)
    if not short:
        o[0] = o[0].replace(" && !shortCircuit()", "")
        o.append('//@ ensures [C07] both: ncalls() >= 1 && calleeIs(0, "invokeExpr") && (res(0) == nil ==> ncalls() == 2 && calleeIs(1, "invokeExpr"))')
    return o

EXTRA = {
 "invokeExpr": ["//@ traced runInfo.expr -> runInfo.err; runInfo.rv"],
 "callExpr": ['// C16: `go f(args)` on the reflect path: the arguments were built (every argument expression evaluated and converted,',
              '// by makeCallArgs in the calling goroutine) before the goroutine is started',
              '//@ traces makeCallArgs',
              '//@ spawnsite [C16 C07] argsfirst: ncalls() >= 1 && calleeIs(ncalls()-1, "makeCallArgs") && arg(ncalls()-1) == callExpr && res(ncalls()-1) == nil'],
 "funcExpr": ["// C04: a function value captures the scope it is DEFINED in (not a copy, not a child made once), the options and the node",
              "//@ closure funcExpr$1 [C04] defscope: envFunc == runInfo.env && options == runInfo.options && funcExpr == as(runInfo.expr, \"*ast.FuncExpr\")"],
 "int64Value": ["//@ autoprops C01 C05", "//@ ensures [C05] val: rvKind(result) == reflect.Int64 && rvInt(result) == v && rvValid(result) && !rvIsNil(result)", "//@ ensures [C05 C14] fresh: !rvCanAddr(result)"],
 "float64Value": ["//@ ensures [C05] val: rvKind(result) == reflect.Float64 && same(rvFloat(result), v) && rvValid(result) && !rvIsNil(result)"],
 "isIntKind": ["//@ ensures [C05] def: result == isIntK(rvKind(v))"],
 "isNum": ["//@ ensures [C06] def: result == (isIntK(rvKind(v)) || isUintK(rvKind(v)) || rvKind(v) == reflect.Uintptr || isFloatK(rvKind(v)))"],
 "precedenceOfKinds": ["//@ ensures [C05] def: result == precK(kind1, kind2)"],
 "tryToInt64": ["//@ ensures [C06] decstr: rvKind(deref1(v)) == reflect.String && decStr(rvStr(deref1(v))) ==> ((result.1 == nil) == parseIntOK(rvStr(deref1(v)), 10, 64)) && (result.1 == nil ==> result.0 == parseIntVal(rvStr(deref1(v)), 10, 64))",
                "//@ ensures [C05] int: isIntK(rvKind(deref1(v))) ==> result.0 == rvInt(deref1(v)) && result.1 == nil",
                "//@ ensures [C05] float: isFloatK(rvKind(deref1(v))) ==> result.0 == f2i(rvFloat(deref1(v))) && result.1 == nil"],
 "tryToInt": ["//@ ensures [C10] int: isIntK(rvKind(deref1(v))) ==> result.0 == rvInt(deref1(v)) && result.1 == nil"],
 "toInt64": ["//@ ensures [C05] int: isIntK(rvKind(deref1(v))) ==> result == rvInt(deref1(v))",
             "//@ ensures [C05] float: isFloatK(rvKind(deref1(v))) ==> result == f2i(rvFloat(deref1(v)))"],
 "tryToFloat64": ["//@ ensures [C06] str: rvKind(deref1(v)) == reflect.String ==> ((result.1 == nil) == parseFloatOK(rvStr(deref1(v)), 64)) && (result.1 == nil ==> same(result.0, parseFloatVal(rvStr(deref1(v)), 64)))",
                  "//@ ensures [C05] float: isFloatK(rvKind(deref1(v))) ==> same(result.0, rvFloat(deref1(v))) && result.1 == nil",
                  "//@ ensures [C05] int: isIntK(rvKind(deref1(v))) ==> same(result.0, i2f(rvInt(deref1(v)))) && result.1 == nil"],
 "toFloat64": ["//@ ensures [C05] float: isFloatK(rvKind(deref1(v))) ==> same(result, rvFloat(deref1(v)))",
               "//@ ensures [C05] int: isIntK(rvKind(deref1(v))) ==> same(result, i2f(rvInt(deref1(v))))"],
 "toBool": ['//@ ensures [C08 C07] def: result == truthyV(v)'],
 "toString": ["//@ ensures [C05] str: rvKind(v) == reflect.String ==> result == rvStr(v)",
              "//@ ensures [C05] other: (rvKind(v) == reflect.Int64 || rvKind(v) == reflect.Float64) ==> result == sprintI(rvIface(v))"],
 "invokeAddOperator": order() + [
   f'//@ ensures [C05 C20] addInt: {OK2} && operator.Operator == "+" && {II} ==> rvKind(runInfo.rv) == reflect.Int64 && rvInt(runInfo.rv) == wrap64(rvInt(opL()) + rvInt(opR()))',
   f'//@ ensures [C05 C20] addFloat: {OK2} && operator.Operator == "+" && {NUMF} ==> rvKind(runInfo.rv) == reflect.Float64 && same(rvFloat(runInfo.rv), fadd(asF(opL()), asF(opR())))',
   f'//@ ensures [C05 C20] addStr: {OK2} && operator.Operator == "+" && ((rvKind(opL()) == reflect.String && (rvKind(opR()) == reflect.String || rvKind(opR()) == reflect.Int64 || rvKind(opR()) == reflect.Float64)) || (rvKind(opR()) == reflect.String && (rvKind(opL()) == reflect.Int64 || rvKind(opL()) == reflect.Float64))) ==> rvKind(runInfo.rv) == reflect.String && rvStr(runInfo.rv) == concat(strOf(opL()), strOf(opR()))',
   f'//@ ensures [C05 C20] subInt: {OK2} && operator.Operator == "-" && {II} ==> rvKind(runInfo.rv) == reflect.Int64 && rvInt(runInfo.rv) == wrap64(rvInt(opL()) - rvInt(opR()))',
   f'//@ ensures [C05 C20] subFloat: {OK2} && operator.Operator == "-" && {NUMF} ==> rvKind(runInfo.rv) == reflect.Float64 && same(rvFloat(runInfo.rv), fsub(asF(opL()), asF(opR())))',
   f'//@ ensures [C05 C20] orInt: {OK2} && operator.Operator == "|" && {II} ==> rvKind(runInfo.rv) == reflect.Int64 && rvInt(runInfo.rv) == bor(rvInt(opL()), rvInt(opR()))',
 ],
 "invokeMultiplyOperator": order() + [
   f'//@ ensures [C05 C20] mulInt: {OK2} && operator.Operator == "*" && {II} ==> rvKind(runInfo.rv) == reflect.Int64 && rvInt(runInfo.rv) == mulw(rvInt(opL()), rvInt(opR()))',
   f'//@ ensures [C05 C20] mulFloat: {OK2} && operator.Operator == "*" && {NUMF} ==> rvKind(runInfo.rv) == reflect.Float64 && same(rvFloat(runInfo.rv), fmul(asF(opL()), asF(opR())))',
   f'//@ ensures [C05 C20] quo: {OK2} && operator.Operator == "/" && {NUM} ==> rvKind(runInfo.rv) == reflect.Float64 && same(rvFloat(runInfo.rv), fdiv(asF(opL()), asF(opR())))',
   f'//@ ensures [C05 C20] remZero: ncalls() == 2 && res(1) == nil && operator.Operator == "%" && {II} && rvInt(opR()) == 0 ==> runInfo.err != nil',
   f'//@ ensures [C05 C20] rem: {OK2} && operator.Operator == "%" && {II} ==> rvInt(opR()) != 0 && rvKind(runInfo.rv) == reflect.Int64 && rvInt(runInfo.rv) == trem(rvInt(opL()), rvInt(opR()))',
   f'//@ ensures [C05 C20] shl: {OK2} && operator.Operator == "<<" && {II} ==> rvKind(runInfo.rv) == reflect.Int64 && rvInt(runInfo.rv) == shl(rvInt(opL()), u64(rvInt(opR())))',
   f'//@ ensures [C05 C20] shr: {OK2} && operator.Operator == ">>" && {II} ==> rvKind(runInfo.rv) == reflect.Int64 && rvInt(runInfo.rv) == shr(rvInt(opL()), u64(rvInt(opR())))',
   f'//@ ensures [C05 C20] andInt: {OK2} && operator.Operator == "&" && {II} ==> rvKind(runInfo.rv) == reflect.Int64 && rvInt(runInfo.rv) == band(rvInt(opL()), rvInt(opR()))',
   f'//@ ensures [C05 C20] repeat: {OK2} && operator.Operator == "*" && rvKind(opL()) == reflect.String && rvKind(opR()) == reflect.Int64 ==> rvInt(opR()) >= 0 && rvKind(runInfo.rv) == reflect.String && rvStr(runInfo.rv) == strRepeat(rvStr(opL()), rvInt(opR()))',
 ],
 "invokeComparisonOperator": order() + [
   '//@ ensures [C05 C06] boolean: runInfo.err == nil ==> runInfo.rv == trueValue || runInfo.rv == falseValue',
   f'//@ ensures [C05 C20] ltInt: {OK2} && operator.Operator == "<" && {II} ==> ((runInfo.rv == trueValue) == (rvInt(opL()) < rvInt(opR())))',
   f'//@ ensures [C05 C20] leInt: {OK2} && operator.Operator == "<=" && {II} ==> ((runInfo.rv == trueValue) == (rvInt(opL()) <= rvInt(opR())))',
   f'//@ ensures [C05 C20] gtInt: {OK2} && operator.Operator == ">" && {II} ==> ((runInfo.rv == trueValue) == (rvInt(opL()) > rvInt(opR())))',
   f'//@ ensures [C05 C20] geInt: {OK2} && operator.Operator == ">=" && {II} ==> ((runInfo.rv == trueValue) == (rvInt(opL()) >= rvInt(opR())))',
   f'//@ ensures [C05 C20] ltFloat: {OK2} && operator.Operator == "<" && {NUMF} ==> ((runInfo.rv == trueValue) == flt(asF(opL()), asF(opR())))',
   f'//@ ensures [C05 C20] leFloat: {OK2} && operator.Operator == "<=" && {NUMF} ==> ((runInfo.rv == trueValue) == fle(asF(opL()), asF(opR())))',
   f'//@ ensures [C05 C20] gtFloat: {OK2} && operator.Operator == ">" && {NUMF} ==> ((runInfo.rv == trueValue) == flt(asF(opR()), asF(opL())))',
   f'//@ ensures [C05 C20] geFloat: {OK2} && operator.Operator == ">=" && {NUMF} ==> ((runInfo.rv == trueValue) == fle(asF(opR()), asF(opL())))',
   f'//@ ensures [C06 C20] eq: {OK2} && operator.Operator == "==" && (nilV(opL()) || nilV(opR()) || corePair(eqD(opL()), eqD(opR()))) ==> ((runInfo.rv == trueValue) == eqV(opL(), opR()))',
   f'//@ ensures [C06 C20] ne: {OK2} && operator.Operator == "!=" && (nilV(opL()) || nilV(opR()) || corePair(eqD(opL()), eqD(opR()))) ==> ((runInfo.rv == trueValue) == !eqV(opL(), opR()))',
 ],
 "invokeBinaryOperator": order(short=True) + [
   '//@ ensures [C07] shortOr: runInfo.err == nil && operator.Operator == "||" && ncalls() == 1 ==> runInfo.rv == trueValue',
   '//@ ensures [C07] shortAnd: runInfo.err == nil && operator.Operator == "&&" && ncalls() == 1 ==> runInfo.rv == falseValue',
   '//@ ensures [C07] boolean: runInfo.err == nil ==> runInfo.rv == trueValue || runInfo.rv == falseValue',
   '// the right operand is evaluated exactly when the (truthiness of the) left one does not decide the result - whatever its type',
   '//@ ensures [C07] skipsOr: operator.Operator == "||" && ncalls() >= 1 && res(0) == nil && truthyV(unwrap(res2(0))) ==> ncalls() == 1',
   '//@ ensures [C07] skipsAnd: operator.Operator == "&&" && ncalls() >= 1 && res(0) == nil && !truthyV(unwrap(res2(0))) ==> ncalls() == 1',
   '//@ ensures [C07] needsOr: operator.Operator == "||" && ncalls() >= 1 && res(0) == nil && !truthyV(unwrap(res2(0))) ==> ncalls() == 2',
   '//@ ensures [C07] needsAnd: operator.Operator == "&&" && ncalls() >= 1 && res(0) == nil && truthyV(unwrap(res2(0))) ==> ncalls() == 2',
   '//@ ensures [C07 C08] value: runInfo.err == nil && ncalls() == 2 ==> (runInfo.rv == trueValue) == truthyV(unwrap(res2(1)))',
 ],
 "invokeUnaryExpr": [
   '//@ ensures [C07] once: ncalls() == 1 && arg(0) == expr.Expr',
   '//@ ensures [C05 C20] negInt: runInfo.err == nil && expr.Operator == "-" && rvKind(unwrap(res2(0))) == reflect.Int64 ==> rvKind(runInfo.rv) == reflect.Int64 && rvInt(runInfo.rv) == wrap64(0 - rvInt(unwrap(res2(0))))',
   '//@ ensures [C05 C20] negFloat: runInfo.err == nil && expr.Operator == "-" && rvKind(unwrap(res2(0))) == reflect.Float64 ==> rvKind(runInfo.rv) == reflect.Float64 && same(rvFloat(runInfo.rv), fneg(rvFloat(unwrap(res2(0)))))',
   '//@ ensures [C05 C20] notInt: runInfo.err == nil && expr.Operator == "^" && rvKind(unwrap(res2(0))) == reflect.Int64 ==> rvKind(runInfo.rv) == reflect.Int64 && rvInt(runInfo.rv) == 0 - rvInt(unwrap(res2(0))) - 1',
 ],
 "invokeLetExpr": ["//@ traced runInfo.expr -> runInfo.err",
   "// C04: plain assignment `x = v` updates the NEAREST existing binding of x (Env.SetValue on the current scope walks the chain)",
   "// and only when there is none creates one, in the CURRENT scope (never in an enclosing or a fresh one); the value stored is",
   "// the one being assigned, under the identifier's own name",
   "//@ traces (*Env).SetValue (*Env).DefineValue",
   '//@ ensures [C04] ident: typeis(old(runInfo.expr), "*ast.IdentExpr") ==> ncalls() >= 1 && calleeIs(0, "env.(*Env).SetValue") && arg(0) == as(old(runInfo.expr), "*ast.IdentExpr").Lit && res2(0) == old(runInfo.rv) && res3(0) == old(runInfo.env) && ite(res(0) == nil, ncalls() == 1, ncalls() == 2 && calleeIs(1, "env.(*Env).DefineValue") && arg(1) == arg(0) && res2(1) == old(runInfo.rv) && res3(1) == old(runInfo.env))',
   '//@ ensures [C04] identok: typeis(old(runInfo.expr), "*ast.IdentExpr") && !strContains(as(old(runInfo.expr), "*ast.IdentExpr").Lit, ".") ==> runInfo.err == nil && runInfo.rv == old(runInfo.rv)'],
 "invokeTernaryOpExpr": [
   '//@ ensures [C07] cond: ncalls() >= 1 && ncalls() <= 2 && calleeIs(0, "invokeExpr") && arg(0) == expr.Expr',
   '//@ ensures [C07 C08] branch: ncalls() == 2 ==> res(0) == nil && calleeIs(1, "invokeExpr") && arg(1) == ite(truthyV(res2(0)), expr.LHS, expr.RHS)',
   '//@ ensures [C07] stop: ncalls() == 1 ==> res(0) != nil'],
 "invokeNilCoalescingOpExpr": [
   '//@ ensures [C07] left: ncalls() >= 1 && ncalls() <= 2 && calleeIs(0, "invokeExpr") && arg(0) == expr.LHS',
   '//@ ensures [C07] right: ncalls() == 2 ==> calleeIs(1, "invokeExpr") && arg(1) == expr.RHS && (res(0) != nil || nilV(res2(0)))',
   '//@ ensures [C07] skip: ncalls() == 1 && !fired ==> res(0) == nil && !nilV(res2(0))'],
 "invokeMemberExpr": ['// C11: member syntax on a Go struct value (directly, behind an interface, or through a pointer) that has no method of that',
   '// name reads the exported field of that name - promoted fields of embedded structs included: the value at the index path',
   '// reflect.Type.FieldByName reports',
   '//@ ensures [C11 C20] field: ncalls() == 1 && res(0) == nil && !typeis(rvIface(unwrap(res2(0))), "*env.Env") && !rvValid(rvMethodNamed(unwrap(res2(0)), expr.Name)) && rvKind(memberRecv(res2(0))) == reflect.Struct && typeHasField(rvTypeOf(memberRecv(res2(0))), expr.Name) ==> runInfo.err == nil && runInfo.rv == rvFieldPath(memberRecv(res2(0)), typeFieldIndex(rvTypeOf(memberRecv(res2(0))), expr.Name))',
   '//@ ensures [C11 C20] method: ncalls() == 1 && res(0) == nil && !typeis(rvIface(unwrap(res2(0))), "*env.Env") && rvValid(rvMethodNamed(unwrap(res2(0)), expr.Name)) ==> runInfo.err == nil && runInfo.rv == rvMethodNamed(unwrap(res2(0)), expr.Name)'],
 "invokeLetMemberExpr": ['// C10/C11: x.f = v on a struct value (directly, behind an interface, or through one pointer): an unknown field is an error; a field',
   '// that cannot be set is an error; otherwise v is converted to the field\'s declared type (an inconvertible value is an error that leaves',
   '// the old content) and exactly that converted value is stored into exactly the field at the index path FieldByName reports;',
   '// no store happens on any error path',
   '//@ traces convertReflectValueToType (reflect.Value).Set',
   '//@ ensures [C10 C11] target: ncalls() >= 1 && calleeIs(0, "invokeExpr") && arg(0) == expr.Expr',
   '//@ ensures [C10 C11] nofield: ncalls() >= 1 && res(0) == nil && !typeis(rvIface(unwrap(res2(0))), "*env.Env") && rvKind(memberRecv(res2(0))) == reflect.Struct && !typeHasField(rvTypeOf(memberRecv(res2(0))), expr.Name) ==> runInfo.err != nil && ncalls() == 1',
   '//@ ensures [C10 C11] fieldstore: runInfo.err == nil && ncalls() >= 1 && !typeis(rvIface(unwrap(res2(0))), "*env.Env") && rvKind(memberRecv(res2(0))) == reflect.Struct ==> ncalls() == 3 && calleeIs(1, "convertReflectValueToType") && arg(1) == old(runInfo.rv) && res(1) == nil && res3(1) == rvTypeOf(rvFieldPath(memberRecv(res2(0)), typeFieldIndex(rvTypeOf(memberRecv(res2(0))), expr.Name))) && calleeIs(2, "(reflect.Value).Set") && arg(2) == rvFieldPath(memberRecv(res2(0)), typeFieldIndex(rvTypeOf(memberRecv(res2(0))), expr.Name)) && res(2) == res2(1)',
   '//@ ensures [C10 C11] untouched: runInfo.err != nil ==> (forall k int :: 0 <= k && k < ncalls() ==> !calleeIs(k, "(reflect.Value).Set"))'],
 "invokeSliceExpr": ['// C10: x[lo:hi] on a slice is Go\'s x[lo:hi]: the window lo..hi of the SAME storage with the capacity of x from lo on',
   '// (reflect.Slice3(lo, hi, cap(x))); x[lo:hi:max] is reflect.Slice3(lo, hi, max); a missing bound is 0 / len(x)',
   '//@ traces (reflect.Value).Slice3',
   '// C07: the operands of x[lo:hi:max] are evaluated once each, in source order: x, then lo, hi, max as far as they are written;',
   '// each one only after the one before it succeeded',
   '//@ ensures [C07] first: ncalls() >= 1 && calleeIs(0, "invokeExpr") && arg(0) == expr.Item',
   '//@ ensures [C07] slots: forall k int :: 1 <= k && k < ncalls() && calleeIs(k, "invokeExpr") ==> res(k-1) == nil && ((expr.Begin != nil && k == 1 && arg(k) == expr.Begin) || (expr.End != nil && k == ite(expr.Begin != nil, 2, 1) && arg(k) == expr.End) || (expr.Cap != nil && k == (ite(expr.Begin != nil, 1, 0) + ite(expr.End != nil, 1, 0) + 1) && arg(k) == expr.Cap))',
   '//@ ensures [C07] allbounds: runInfo.err == nil && (rvKind(unwrap(res2(0))) == reflect.Slice || rvKind(unwrap(res2(0))) == reflect.Array) ==> ncalls() == (ite(expr.Begin != nil, 1, 0) + ite(expr.End != nil, 1, 0) + 1) + ite(expr.Cap != nil, 1, 0) + 1 && (forall k int :: 0 <= k && k < ncalls() - 1 ==> calleeIs(k, "invokeExpr"))',
   '// ... on a string, s[lo:hi] is Go\'s substring s[lo:hi] (missing bounds 0 / len(s)); a capacity bound is an error',
   '//@ ensures [C10 C20] substr: runInfo.err == nil && rvKind(unwrap(res2(0))) == reflect.String && expr.Begin != nil && expr.End != nil && rvKind(res2(1)) == reflect.Int64 && rvKind(res2(2)) == reflect.Int64 ==> expr.Cap == nil && ncalls() == 3 && runInfo.rv == rvSlice2(unwrap(res2(0)), rvInt(res2(1)), rvInt(res2(2)))',
   '//@ ensures [C10] strcap: ncalls() >= 1 && res(0) == nil && rvKind(unwrap(res2(0))) == reflect.String && expr.Cap != nil ==> runInfo.err != nil',
   '//@ ensures [C10] two: runInfo.err == nil && expr.Cap == nil && rvKind(unwrap(res2(0))) == reflect.Slice ==> ncalls() >= 2 && calleeIs(ncalls()-1, "(reflect.Value).Slice3") && arg(ncalls()-1) == unwrap(res2(0)) && res3(ncalls()-1) == rvCap(unwrap(res2(0)))'],
 "invokeItemExpr": [
   '//@ ensures [C07] order: ncalls() >= 1 && ncalls() <= 2 && calleeIs(0, "invokeExpr") && arg(0) == expr.Item && (ncalls() == 2 ==> res(0) == nil && calleeIs(1, "invokeExpr") && arg(1) == expr.Index) && (runInfo.err == nil ==> ncalls() == 2)'],
 "invokeImportExpr": ['// C14/C19: import gives the importing environment ITS OWN copy of the package\'s symbol table: a fresh child scope of the current',
   '// one in which every entry of the package table is defined under its name with its value (nothing skipped, nothing else',
   '// written); the shared table itself is only read',
   '//@ callsite (*Env).DefineValue * [C14] ownenv: fresh(arg0) && arg0.parent == old(runInfo.env) && arg0 == pack && has(methods, arg1) && arg2 == methods[arg1]',
   '//@ loop 0 invariant [C14 C19] own: fresh(pack) && pack.parent == old(runInfo.env)',
   '//@ loop 0 invariant [C14 C19] ownmap: pack.values == nil || (fresh(pack.values) && pack.values != methods)',
   '//@ loop 0 invariant [C14] tablekept: forall k string :: has(methods, k) ==> rangekeys(0, k)',
   '//@ loop 0 invariant [C14 C19] copied: forall k string :: visited(0, k) ==> has(pack.values, k) && pack.values[k] == methods[k]',
   '//@ loop 1 invariant [C14 C19] own: fresh(pack) && pack.parent == old(runInfo.env)',
   '//@ loop 1 invariant [C14 C19] ownmap: pack.values == nil || (fresh(pack.values) && pack.values != methods)',
   '//@ loop 1 invariant [C14 C19] owntypes: pack.types == nil || (fresh(pack.types) && pack.types != methods && pack.types != pack.values)',
   '//@ loop 1 invariant [C14 C19] kept: forall k string :: has(methods, k) ==> has(pack.values, k) && pack.values[k] == methods[k]',
   '// (stated where the result is boxed - a clause over the locals pack / methods cannot be exported to callers)',
   '//@ callsite reflect.ValueOf * [C14 C19] imported: callarg0 == iface(pack, "*env.Env") && fresh(pack) && pack.parent == old(runInfo.env) && (forall k string :: has(methods, k) ==> has(pack.values, k) && pack.values[k] == methods[k])'],
 "invokeLenExpr": ['//@ ensures [C07] once: ncalls() == 1 && arg(0) == expr.Expr',
   '// C10/C19/C20: len(x) is Go\'s len of what x DENOTES (a value read from an interface-typed element or result included):',
   '// an int64 for arrays, channels, maps, slices and strings, an error for everything else',
   '//@ ensures [C10 C19 C20] len: ncalls() == 1 && res(0) == nil && (rvKind(unwrap(res2(0))) == reflect.Array || rvKind(unwrap(res2(0))) == reflect.Chan || rvKind(unwrap(res2(0))) == reflect.Map || rvKind(unwrap(res2(0))) == reflect.Slice || rvKind(unwrap(res2(0))) == reflect.String) ==> runInfo.err == nil && rvKind(runInfo.rv) == reflect.Int64 && rvInt(runInfo.rv) == rvLen(unwrap(res2(0)))',
   '//@ ensures [C10 C19 C20] nolen: ncalls() == 1 && res(0) == nil && !(rvKind(unwrap(res2(0))) == reflect.Array || rvKind(unwrap(res2(0))) == reflect.Chan || rvKind(unwrap(res2(0))) == reflect.Map || rvKind(unwrap(res2(0))) == reflect.Slice || rvKind(unwrap(res2(0))) == reflect.String) ==> runInfo.err != nil'],
 "invokeArrayExpr": [
   '//@ ensures [C07] order: evalsPrefix(expr.Exprs) && okButLast() && (runInfo.err == nil ==> ncalls() == len(expr.Exprs))',
   '//@ loop 0 invariant ncalls() == rangeindex + 1 && rangeindex < len(expr.Exprs) && evalsPrefix(expr.Exprs) && (forall k int :: 0 <= k && k < ncalls() ==> res(k) == nil)',
   '//@ loop 1 invariant ncalls() == rangeindex#1 + 1 && rangeindex#1 < len(expr.Exprs) && evalsPrefix(expr.Exprs) && (forall k int :: 0 <= k && k < ncalls() ==> res(k) == nil)'],
 "invokeMapExpr": [
   '//@ ensures [C07] order: (forall k int :: 0 <= k && 2*k < ncalls() ==> calleeIs(2*k, "invokeExpr") && arg(2*k) == expr.Keys[k]) && (forall k int :: 0 <= k && 2*k+1 < ncalls() ==> calleeIs(2*k+1, "invokeExpr") && arg(2*k+1) == expr.Values[k]) && okButLast() && (runInfo.err == nil ==> ncalls() == 2*len(expr.Keys))',
   '//@ loop 0 invariant ncalls() == 2*(rangeindex + 1) && rangeindex < len(expr.Keys) && (forall k int :: 0 <= k && k <= rangeindex ==> calleeIs(2*k, "invokeExpr") && arg(2*k) == expr.Keys[k] && calleeIs(2*k+1, "invokeExpr") && arg(2*k+1) == expr.Values[k]) && (forall k int :: 0 <= k && k < ncalls() ==> res(k) == nil)',
   '//@ loop 1 invariant ncalls() == 2*(rangeindex#1 + 1) && rangeindex#1 < len(expr.Keys) && (forall k int :: 0 <= k && k <= rangeindex#1 ==> calleeIs(2*k, "invokeExpr") && arg(2*k) == expr.Keys[k] && calleeIs(2*k+1, "invokeExpr") && arg(2*k+1) == expr.Values[k]) && (forall k int :: 0 <= k && k < ncalls() ==> res(k) == nil)'],
 "anonCallExpr": [
   '//@ ensures [C07] order: ncalls() >= 1 && ncalls() <= 2 && calleeIs(0, "invokeExpr") && arg(0) == old(as(runInfo.expr, "*ast.AnonCallExpr")).Expr && (ncalls() == 2 ==> res(0) == nil && calleeIs(1, "invokeExpr") && typeis(arg(1), "*ast.CallExpr") && as(arg(1), "*ast.CallExpr").SubExprs == old(as(runInfo.expr, "*ast.AnonCallExpr")).SubExprs)'],
 "convertReflectValueToType": ['//@ traced_optin rv -> result.1; result.0; rt', '//@ requires [C01] okvin: rvValid(rv) && rt != nil', '//@ ensures [C01] okv: rvValid(result.0)',    '// C11: a value whose type already is the target type, or whose target is interface{}, crosses unchanged; otherwise, when Go',
   '// itself can convert the value to the target type, the result is Go\'s conversion',
   '//@ ensures [C11 C10] identity: rt == interfaceType || rvTypeOf(rv) == rt ==> result.1 == nil && result.0 == rv',
   '//@ ensures [C11 C10] goconv: rt != interfaceType && rvTypeOf(rv) != rt && typeConvertible(rvTypeOf(rv), rt) ==> result.1 == nil && result.0 == rvConvert(rv, rt)',
   '// ... otherwise: slices/arrays and maps are converted element-wise by convertSliceOrArray / convertMap (their contracts), an',
   '// interface-typed nil becomes the ZERO VALUE of the target type, an interface-typed non-nil value is converted as what it wraps',
   '//@ traces convertSliceOrArray convertMap convertReflectValueToType',
   '//@ ensures [C11] slices: rt != interfaceType && rvTypeOf(rv) != rt && !typeConvertible(rvTypeOf(rv), rt) && (rvKind(rv) == reflect.Slice || rvKind(rv) == reflect.Array) && (kindOfType(rt) == reflect.Slice || kindOfType(rt) == reflect.Array) ==> ncalls() == 1 && calleeIs(0, "convertSliceOrArray") && arg(0) == rv && res3(0) == rt && result.0 == res2(0) && result.1 == res(0)',
   '//@ ensures [C11] maps: rt != interfaceType && rvTypeOf(rv) != rt && !typeConvertible(rvTypeOf(rv), rt) && rvKind(rv) == reflect.Map && kindOfType(rt) == reflect.Map ==> ncalls() == 1 && calleeIs(0, "convertMap") && arg(0) == rv && res3(0) == rt && result.0 == res2(0) && result.1 == res(0)',
   '//@ ensures [C11] nilzero: rt != interfaceType && rvTypeOf(rv) != rt && !typeConvertible(rvTypeOf(rv), rt) && rvTypeOf(rv) == interfaceType && rvKind(rv) == reflect.Interface && rvIsNil(rv) ==> result.1 == nil && result.0 == rvZero(rt)',
   '//@ ensures [C11 C20] wrapped: rt != interfaceType && rvTypeOf(rv) != rt && !typeConvertible(rvTypeOf(rv), rt) && rvTypeOf(rv) == interfaceType && rvKind(rv) == reflect.Interface && !rvIsNil(rv) ==> ncalls() == 1 && calleeIs(0, "convertReflectValueToType") && arg(0) == rvElem(rv) && res3(0) == rt && result.0 == res2(0) && result.1 == res(0)'],
 "convertSliceOrArray": ['//@ traced_optin rv -> result.1; result.0; rt', '//@ requires [C01] okvin: rvValid(rv) && rt != nil', '//@ ensures [C01] okv: rvValid(result.0)',
   '// C11: a slice/array crossing to a Go parameter of another slice/array type is converted ELEMENT BY ELEMENT: for every index k,',
   '// in order, element k of the source is converted to the target element type and exactly that converted value is stored into',
   '// element k of the new container; the first element that cannot be converted fails the whole conversion (nothing is skipped)',
   '//@ traces convertReflectValueToType (reflect.Value).Set',
   '//@ loop 0 invariant [C11] elems: 0 <= i && i <= rvLen(rv) && ncalls() == 2*i && (forall k int :: 0 <= k && k < i ==> calleeIs(2*k, "convertReflectValueToType") && arg(2*k) == rvIndexV(rv, k) && res3(2*k) == typeElem(rt) && res(2*k) == nil && calleeIs(2*k+1, "(reflect.Value).Set") && arg(2*k+1) == rvIndexV(value, k) && res(2*k+1) == res2(2*k))',
   '//@ ensures [C11] elementwise: result.1 == nil ==> ncalls() == 2*rvLen(rv) && result.0 == value && (forall k int :: 0 <= k && k < rvLen(rv) ==> arg(2*k) == rvIndexV(rv, k) && res3(2*k) == typeElem(rt) && arg(2*k+1) == rvIndexV(value, k) && res(2*k+1) == res2(2*k))',
   '//@ ensures [C11] failfirst: result.1 != nil ==> result.0 == rv && ncalls() >= 1 && calleeIs(ncalls()-1, "convertReflectValueToType") && res(ncalls()-1) != nil'],
 "convertMap": ['//@ traced_optin rv -> result.1; result.0; rt', '//@ requires [C01] okvin: rvValid(rv) && rt != nil', '//@ ensures [C01] okv: rvValid(result.0)',
   '// C11: a map crossing to a Go parameter of another map type is converted ENTRY BY ENTRY: every entry the iteration presents',
   '// (Next reported true) has its key converted to the target key type and its value to the target element type, and exactly',
   '// that pair is stored into the new map - no entry is skipped (a nil value becomes the zero value by its conversion, it',
   '// does not vanish); the first failing conversion fails the whole conversion',
   '//@ traces (*reflect.MapIter).Next convertReflectValueToType (reflect.Value).SetMapIndex',
   '//@ loop 0 invariant [C11] entries: ncalls() == 4*(ncalls()/4) && (forall k int :: 0 <= k && 4*k < ncalls() ==> calleeIs(4*k, "(*reflect.MapIter).Next") && res(4*k) == 1 && calleeIs(4*k+1, "convertReflectValueToType") && res3(4*k+1) == typeKey(rt) && res(4*k+1) == nil && calleeIs(4*k+2, "convertReflectValueToType") && res3(4*k+2) == typeElem(rt) && res(4*k+2) == nil && calleeIs(4*k+3, "(reflect.Value).SetMapIndex") && arg(4*k+3) == newMap && res(4*k+3) == res2(4*k+1) && res2(4*k+3) == res2(4*k+2))',
   '//@ ensures [C11] entrywise: result.1 == nil ==> result.0 == newMap && ncalls() == 4*(ncalls()/4) + 1 && calleeIs(ncalls()-1, "(*reflect.MapIter).Next") && res(ncalls()-1) == 0 && (forall k int :: 0 <= k && 4*k < ncalls() - 1 ==> calleeIs(4*k, "(*reflect.MapIter).Next") && res(4*k) == 1 && calleeIs(4*k+3, "(reflect.Value).SetMapIndex") && arg(4*k+3) == newMap && res(4*k+3) == res2(4*k+1) && res2(4*k+3) == res2(4*k+2))'],
 "convertVMFunctionToType": ['//@ requires [C01] okvin: rvValid(rv) && rt != nil', '//@ ensures [C01] okv: rvValid(result.0)'],
 "invokeDerefExpr": ['// C20: the operand is what the evaluated expression denotes, also when it was read from an interface-typed element',
   '//@ ensures [C20] ptr: ncalls() == 1 && res(0) == nil && rvKind(unwrap(res2(0))) == reflect.Ptr && !rvIsNil(unwrap(res2(0))) ==> runInfo.err == nil && runInfo.rv == rvElem(unwrap(res2(0)))',
   '//@ ensures [C20 C01] nilptr: ncalls() == 1 && res(0) == nil && rvKind(unwrap(res2(0))) == reflect.Ptr && rvIsNil(unwrap(res2(0))) ==> runInfo.err != nil',
   '//@ ensures [C20] nonptr: ncalls() == 1 && res(0) == nil && rvKind(unwrap(res2(0))) != reflect.Ptr ==> runInfo.err != nil'],
 "invokeIncludeExpr": ['// C06/C20/C07: `item in list` evaluates item, then list, and answers whether vm.equal holds between the item and some element',
   '// of the list (the same relation as == and switch); the list is what the expression denotes (unwrapped)',
   '//@ ensures [C07] order: ncalls() <= 2 && (ncalls() >= 1 ==> arg(0) == expr.ItemExpr) && (ncalls() == 2 ==> arg(1) == expr.ListExpr && res(0) == nil)',
   '//@ ensures [C07] both: ncalls() >= 1 && calleeIs(0, "invokeExpr") && (res(0) == nil ==> ncalls() == 2 && calleeIs(1, "invokeExpr"))',
   '//@ ensures [C20] listkind: ncalls() == 2 && res(1) == nil && (rvKind(unwrap(res2(1))) == reflect.Slice || rvKind(unwrap(res2(1))) == reflect.Array) ==> runInfo.err == nil',
   '//@ ensures [C06 C20] member: runInfo.err == nil && ncalls() == 2 ==> (runInfo.rv == trueValue || runInfo.rv == falseValue) && ((runInfo.rv == trueValue) == (exists j int :: 0 <= j && j < rvLen(unwrap(res2(1))) && equalR(res2(0), rvIndexV(unwrap(res2(1)), j))))',
   '//@ loop 0 invariant 0 <= i && ncalls() == 2 && res(0) == nil && res(1) == nil && itemExpr == res2(0) && (forall j int :: 0 <= j && j < i ==> !equalR(res2(0), rvIndexV(runInfo.rv, j)))'],
 "invokeChanExpr": ['// C16: `<- ch` receives from the channel the operand denotes; `ch <- v` converts v to the element type of the channel the',
   '// left operand denotes and sends exactly that converted value once (the Select calls are the only channel operations);',
   '// a receive that finds the channel closed and drained yields nil, an interruption yields ErrInterrupt (C02).',
   '//@ traces reflect.Select convertReflectValueToType',
   '//@ callsite reflect.Select * [C16] cases: len(arg0) == 2 && ite(arg0[1].Dir == reflect.SelectSend, lhs == unwrap(res2(1)) && arg0[1].Chan == lhs && calleeIs(ncalls()-1, "convertReflectValueToType") && res(ncalls()-1) == nil && arg0[1].Send == res2(ncalls()-1) && res3(ncalls()-1) == typeElem(rvTypeOf(lhs)) && (arg(ncalls()-1) == unwrap(res2(0)) || (calleeIs(ncalls()-2, "reflect.Select") && res(ncalls()-2) == 0 && arg(ncalls()-1) == res2(ncalls()-2))), arg0[1].Dir == reflect.SelectRecv && arg0[1].Chan == unwrap(res2(0)))',
   '//@ ensures [C16] recv: expr.LHS == nil && ncalls() == 2 && calleeIs(1, "reflect.Select") && res(1) == 0 ==> runInfo.err == nil && runInfo.rv == res2(1)',
   '//@ ensures [C16] closednil: expr.LHS == nil && ncalls() == 2 && calleeIs(1, "reflect.Select") && res(1) == 1 ==> runInfo.err == nil && runInfo.rv == nilValue',
   '//@ ensures [C16 C02] interrupted: ncalls() >= 1 && calleeIs(ncalls()-1, "reflect.Select") && res(ncalls()-1) == 2 ==> runInfo.err == ErrInterrupt',
   '//@ ensures [C16] onesend: expr.LHS != nil && runInfo.err == nil && rvKind(unwrap(res2(0))) != reflect.Chan ==> ncalls() == 4 && calleeIs(3, "reflect.Select") && res(3) == 0'],
 "invokeItemExpr": ['// C10: x[i] on a slice, array or string with an integer index in range reads exactly element i; an index out of range',
   '// (negative, equal to or beyond the length) is an error; on a map it is getMapIndex(key, map); anything else is an error',
   '//@ ensures [C07] order: ncalls() <= 2 && (ncalls() >= 1 ==> arg(0) == expr.Item) && (ncalls() == 2 ==> arg(1) == expr.Index && res(0) == nil)',
   '// ... and the index operand IS evaluated whenever the item operand succeeded - whatever the item turned out to be',
   '//@ ensures [C07] both: ncalls() >= 1 && calleeIs(0, "invokeExpr") && (res(0) == nil ==> ncalls() == 2 && calleeIs(1, "invokeExpr"))',
   '//@ ensures [C10 C20] elem: runInfo.err == nil && ncalls() == 2 && (rvKind(unwrap(res2(0))) == reflect.Slice || rvKind(unwrap(res2(0))) == reflect.Array) && rvKind(res2(1)) == reflect.Int64 ==> 0 <= rvInt(res2(1)) && rvInt(res2(1)) < rvLen(unwrap(res2(0))) && runInfo.rv == rvIndexV(unwrap(res2(0)), rvInt(res2(1)))',
   '//@ ensures [C10 C20] range: ncalls() == 2 && res(1) == nil && (rvKind(unwrap(res2(0))) == reflect.Slice || rvKind(unwrap(res2(0))) == reflect.Array || rvKind(unwrap(res2(0))) == reflect.String) && rvKind(res2(1)) == reflect.Int64 && (rvInt(res2(1)) < 0 || rvInt(res2(1)) >= rvLen(unwrap(res2(0)))) ==> runInfo.err != nil && runInfo.rv == nilValue',
   '//@ ensures [C10 C20] inrange: ncalls() == 2 && res(1) == nil && (rvKind(unwrap(res2(0))) == reflect.Slice || rvKind(unwrap(res2(0))) == reflect.Array) && rvKind(res2(1)) == reflect.Int64 && 0 <= rvInt(res2(1)) && rvInt(res2(1)) < rvLen(unwrap(res2(0))) ==> runInfo.err == nil',
   '// ... on a string, s[i] in range is the one-byte string Go\'s string(s[i]) gives (the indexed byte converted to string)',
   '//@ ensures [C10 C20] strelem: ncalls() == 2 && res(1) == nil && rvKind(unwrap(res2(0))) == reflect.String && rvKind(res2(1)) == reflect.Int64 && 0 <= rvInt(res2(1)) && rvInt(res2(1)) < rvLen(unwrap(res2(0))) ==> runInfo.err == nil && runInfo.rv == rvConvert(rvIndexV(unwrap(res2(0)), rvInt(res2(1))), stringType)',
   '//@ ensures [C10] other: ncalls() == 2 && res(1) == nil && rvKind(unwrap(res2(0))) != reflect.Slice && rvKind(unwrap(res2(0))) != reflect.Array && rvKind(unwrap(res2(0))) != reflect.String && rvKind(unwrap(res2(0))) != reflect.Map ==> runInfo.err != nil'],
 "invokeLetItemSlice": ['// C10: x[i] = v on a slice or array: in range, exactly element i receives v converted to the element type; at i == len',
   '// the converted value is appended and the grown slice assigned back to x; any error (non-numeric or out-of-range index,',
   '// unassignable element, inconvertible value) leaves the container untouched: no reflect store happens',
   '//@ traces (reflect.Value).Set convertReflectValueToType reflect.Append',
   '//@ ensures [C10] untouched: runInfo.err != nil ==> (forall k int :: 0 <= k && k < ncalls() ==> !calleeIs(k, "(reflect.Value).Set"))',
   '//@ ensures [C10] stored: runInfo.err == nil && rvKind(old(runInfo.rv)) == reflect.Int64 && rvInt(old(runInfo.rv)) != rvLen(item) ==> 0 <= rvInt(old(runInfo.rv)) && rvInt(old(runInfo.rv)) < rvLen(item) && ncalls() == 2 && calleeIs(0, "convertReflectValueToType") && arg(0) == value && res(0) == nil && res3(0) == rvTypeOf(rvIndexV(item, rvInt(old(runInfo.rv)))) && calleeIs(1, "(reflect.Value).Set") && arg(1) == rvIndexV(item, rvInt(old(runInfo.rv))) && res(1) == res2(0)',
   '//@ ensures [C10] appended: runInfo.err == nil && rvKind(old(runInfo.rv)) == reflect.Int64 && rvInt(old(runInfo.rv)) == rvLen(item) ==> ncalls() >= 2 && calleeIs(0, "convertReflectValueToType") && arg(0) == value && res(0) == nil && res3(0) == typeElem(rvTypeOf(item)) && calleeIs(1, "reflect.Append") && arg(1) == item && res2(1) == res2(0)'],
 "invokeLetItemMap": ['// C10: m[k] = v: the key is converted to the key type and must be hashable, the value is converted to the element type; any',
   '// of these failing is an error and the map is not written',
   '//@ traces (reflect.Value).SetMapIndex',
   '//@ ensures [C10] untouched: runInfo.err != nil ==> (forall k int :: 0 <= k && k < ncalls() && calleeIs(k, "(reflect.Value).SetMapIndex") ==> arg(k) != old(item))',
   '//@ ensures [C10] written: runInfo.err == nil && !rvIsNil(old(item)) ==> ncalls() == 1 && arg(0) == old(item) && hashableKey(res(0))'],
 "isHashable": ['//@ ensures [C01 C10] def: result == hashableKey(v)'],
 "getMapIndex": ['//@ requires [C01] okvin: rvValid(key) && rvKind(aMap) == reflect.Map', '//@ ensures [C01] okv: rvValid(result)',
   '// C10: reading a map never fails: a nil map, a key that cannot be converted to the key type, an unhashable key and a missing',
   '// key all read as nil; a present key reads the stored value (unwrapped from interface{} element types)',
   '//@ traces convertReflectValueToType (reflect.Value).MapIndex',
   '//@ ensures [C10] nilmap: rvIsNil(aMap) ==> result == nilValue && ncalls() == 0',
   '//@ ensures [C10] badkey: ncalls() == 1 && calleeIs(0, "convertReflectValueToType") && (res(0) != nil || !hashableKey(res2(0))) ==> result == nilValue',
   '//@ ensures [C10] lookup: ncalls() == 2 ==> calleeIs(0, "convertReflectValueToType") && arg(0) == key && res(0) == nil && res3(0) == typeKey(rvTypeOf(aMap)) && calleeIs(1, "(reflect.Value).MapIndex") && arg(1) == aMap && res2(1) == res2(0) && (!rvValid(res(1)) ==> result == nilValue) && (rvValid(res(1)) && typeElem(rvTypeOf(aMap)) != interfaceType ==> result == res(1))'],
 "appendSlice": ['//@ ensures [C01] okv: rvValid(result.0)',
   '// C10: `a + b` / `a += b` on two slices with the same element type IS Go\'s append(a, b...) (reflect.AppendSlice on exactly',
   '// these two operands - so its storage-sharing and growth behaviour is Go\'s, never a shortcut)',
   '//@ ensures [C10] goappend: typeElem(rvTypeOf(lhsV)) == typeElem(rvTypeOf(rhsV)) ==> result.1 == nil && result.0 == rvAppendSlice(lhsV, rhsV)'],
 "makeValue": ['//@ requires [C01] t != nil', '//@ ensures [C01] okv: rvValid(result.0)'],
 "equal": ['//@ free_ensures rel: result == equalR(lhsV, rhsV)',
   '// C06: containers compare structurally: two slices (or two maps) are equal exactly when reflect.DeepEqual says so for',
   '// what the two operands hold - no shortcut through identity of storage',
   '//@ ensures [C06] containers: !nilV(lhsV) && !nilV(rhsV) && rvKind(eqD(lhsV)) == rvKind(eqD(rhsV)) && (rvKind(eqD(lhsV)) == reflect.Slice || rvKind(eqD(lhsV)) == reflect.Map) ==> result == deepEqS(rvIface(eqD(lhsV)), rvIface(eqD(rhsV)))', '//@ ensures [C06] nil: (nilV(lhsV) || nilV(rhsV)) ==> result == (nilV(lhsV) && nilV(rhsV))',
           '//@ ensures [C06] core: !nilV(lhsV) && !nilV(rhsV) && corePair(eqD(lhsV), eqD(rhsV)) ==> result == eqV(lhsV, rhsV)',
           '// C06 (symmetry): two floats of different width are compared through ONE rendering of each operand (numToString) - a relation that does',
           '// not depend on which operand is on the left (converting one side to the width of the other would)',
           '//@ ensures [C06] mixedfloat: !nilV(lhsV) && !nilV(rhsV) && isFloatK(rvKind(eqD(lhsV))) && isFloatK(rvKind(eqD(rhsV))) && rvKind(eqD(lhsV)) != rvKind(eqD(rhsV)) ==> result == (numStrS(eqD(lhsV)) == numStrS(eqD(rhsV)))',
           '// C06: a string and a number are equal exactly when the string is a decimal numeral denoting that number - decided in the integer',
           '// domain when the numeral is an integer (exact over the whole int64 range, in BOTH operand orders), in float64 otherwise',
           '//@ ensures [C06] numstrint: !nilV(lhsV) && !nilV(rhsV) && rvKind(eqD(lhsV)) == reflect.Int64 && rvKind(eqD(rhsV)) == reflect.String && decStr(rvStr(eqD(rhsV))) && parseIntOK(rvStr(eqD(rhsV)), 10, 64) ==> result == (rvInt(eqD(lhsV)) == parseIntVal(rvStr(eqD(rhsV)), 10, 64))',
           '//@ ensures [C06] numstrfloat: !nilV(lhsV) && !nilV(rhsV) && (rvKind(eqD(lhsV)) == reflect.Int64 || rvKind(eqD(lhsV)) == reflect.Float64) && rvKind(eqD(rhsV)) == reflect.String && decStr(rvStr(eqD(rhsV))) && !parseIntOK(rvStr(eqD(rhsV)), 10, 64) && parseFloatOK(rvStr(eqD(rhsV)), 64) ==> result == feq(asF(eqD(lhsV)), parseFloatVal(rvStr(eqD(rhsV)), 64))',
           '//@ ensures [C06] numstrnone: !nilV(lhsV) && !nilV(rhsV) && (rvKind(eqD(lhsV)) == reflect.Int64 || rvKind(eqD(lhsV)) == reflect.Float64) && rvKind(eqD(rhsV)) == reflect.String && decStr(rvStr(eqD(rhsV))) && !parseIntOK(rvStr(eqD(rhsV)), 10, 64) && !parseFloatOK(rvStr(eqD(rhsV)), 64) ==> !result',
           '//@ ensures [C06] strnumint: !nilV(lhsV) && !nilV(rhsV) && rvKind(eqD(rhsV)) == reflect.Int64 && rvKind(eqD(lhsV)) == reflect.String && decStr(rvStr(eqD(lhsV))) && parseIntOK(rvStr(eqD(lhsV)), 10, 64) ==> result == (rvInt(eqD(rhsV)) == parseIntVal(rvStr(eqD(lhsV)), 10, 64))',
           '//@ ensures [C06] strnumfloat: !nilV(lhsV) && !nilV(rhsV) && (rvKind(eqD(rhsV)) == reflect.Int64 || rvKind(eqD(rhsV)) == reflect.Float64) && rvKind(eqD(lhsV)) == reflect.String && decStr(rvStr(eqD(lhsV))) && !parseIntOK(rvStr(eqD(lhsV)), 10, 64) && parseFloatOK(rvStr(eqD(lhsV)), 64) ==> result == feq(asF(eqD(rhsV)), parseFloatVal(rvStr(eqD(lhsV)), 64))',
           '//@ ensures [C06] strnumnone: !nilV(lhsV) && !nilV(rhsV) && (rvKind(eqD(rhsV)) == reflect.Int64 || rvKind(eqD(rhsV)) == reflect.Float64) && rvKind(eqD(lhsV)) == reflect.String && decStr(rvStr(eqD(lhsV))) && !parseIntOK(rvStr(eqD(lhsV)), 10, 64) && !parseFloatOK(rvStr(eqD(lhsV)), 64) ==> !result'],
 "isNil": ['//@ ensures [C06] def: result == nilV(v)'],
 "numToString": ['//@ free_ensures [C06] def: result == numStrS(v)'],
 "tryToBool": ['// truthyV is DEFINED as the first result of tryToBool (a function of the value); the truthiness table is below',
               '//@ free_ensures [C08] def: result.0 == truthyV(v)','//@ ensures [C06 C08] bool: rvKind(deref1(v)) == reflect.Bool ==> result.0 == rvBool(deref1(v)) && result.1 == nil'],
}

out = ['''//go:build verif
// +build verif

// GENERATED by /verif/tools/gen_vm_expr_contracts.py - edit the generator, not this file.
// Contracts for package vm (expressions, operators, helpers), read by /verif/engine (govc). Comment-only file.

package vm

// pure: helpers that read reflect values only; they change nothing of the interpreter's state.
//@ func template.pure
//@ ensures [C08] nopanicstate: true
''']
def emit(key, lines):
    name = key.split(").")[-1] if ")." in key else key
    out.append("\n".join([f"//@ func {key}"] + lines + EXTRA.get(name, [])) + "\n")
for f in noparam:
    emit(f"(*runInfoStruct).{f}", ["//@ props C04 C02 C08", "//@ like template.evalExpr"])
for f in exprs_with_param:
    emit(f"(*runInfoStruct).{f}", ["//@ props C04 C02 C08", "//@ like template.evalExpr", "//@ requires node: expr != nil"])
for f in ops:
    emit(f"(*runInfoStruct).{f}", ["//@ props C04 C02 C08", "//@ like template.evalExpr", "//@ requires node: operator != nil"])
for f in pure:
    ls = ["//@ props C04", "//@ like template.pure"]
    if f in ERR:
        ls.append("//@ ensures [C08] nosentinel: notSentinel(result.1) && result.1 != ErrInterrupt")
    if f == "processCallReturnValues":
        ls += ["//@ traced_optin rvs -> result.1; result.0", "//@ requires [C01 C11] rvsvalid: forall k int :: 0 <= k && k < len(rvs) ==> rvValid(rvs[k])"]
        ls += ["// C11: all results of a Go function come back: none -> nil, one -> that value (several -> a list, not under contract)",
               "//@ ensures [C11] none: !isRunVMFunction && len(rvs) == 0 ==> result.0 == nilValue && result.1 == nil",
               "//@ ensures [C11] one: !isRunVMFunction && len(rvs) == 1 ==> result.0 == rvs[0] && result.1 == nil",
               "//@ ensures [C11] goerr: !isRunVMFunction ==> result.1 == nil",
               "// ... several -> the list reflectValueSlicetoInterfaceSlice builds from exactly these results (its contract: element k is result k)",
               "//@ traces reflectValueSlicetoInterfaceSlice",
               "//@ ensures [C11] many: !isRunVMFunction && convertToInterfaceSlice && len(rvs) >= 2 ==> ncalls() == 1 && calleeIs(0, \"reflectValueSlicetoInterfaceSlice\") && arg(0) == rvs && result.0 == res(0)"]
        ls += ["// VM-function protocol (ASSUMED for host functions with the VM signature, proved for funcExpr's closures): the error a",
               "// function value returns is never a control-flow sentinel, and it is non-nil when a cancellation poll fired inside it",
               "//@ free_ensures [C08] nosentinel: notSentinel(result.1)",
               "//@ free_ensures [C02] firederr: callFired(rvs) ==> realErr(result.1)",
               "//@ free_ensures [C01] okv: rvValid(result.0)"]
    if f == "reflectValueSlicetoInterfaceSlice":
        ls.append("//@ loop 0 invariant interfaceSlice == nil || fresh(base(interfaceSlice))")
        ls += ["//@ traced_optin valueSlice -> result"]
        ls += ["// C11: ALL results of a Go function come back, as a list, in order, each one as the very value Go returned (what an",
               "// interface-typed result wraps; a typed nil pointer / slice / map stays that typed nil): element k of the list is result k",
               "//@ requires [C11 C01] valid: forall k int :: 0 <= k && k < len(valueSlice) ==> rvValid(valueSlice[k])",
               "//@ loop 0 invariant [C11] prefix: len(interfaceSlice) == rangeindex + 1 && rangeindex < len(valueSlice) && (forall k int :: 0 <= k && k < len(interfaceSlice) ==> interfaceSlice[k] == ite(rvCanIface(unwrap(valueSlice[k])), rvIface(unwrap(valueSlice[k])), nil))",
               "//@ callsite reflect.ValueOf * [C11] list: len(interfaceSlice) == len(valueSlice) && (forall k int :: 0 <= k && k < len(valueSlice) ==> interfaceSlice[k] == ite(rvCanIface(unwrap(valueSlice[k])), rvIface(unwrap(valueSlice[k])), nil))"]
    emit(f, ls)
out.append('''//@ func (*Error).Error
//@ props C04
//@ requires e != nil

//@ func (*runInfoStruct).makeCallArgs
//@ props C04 C02 C08
//@ like template.evalExpr
//@ traced_optin callExpr -> runInfo.err; result.0; ite(result.1, 1, 0)
//@ requires node: callExpr != nil && rt != nil
//@ ensures [C07] order: evalsPrefix(callExpr.SubExprs) && okButLast()
//@ loop 0 invariant (args == nil || fresh(base(args))) && ncalls() == indexExpr && 0 <= indexExpr && evalsPrefix(callExpr.SubExprs) && (forall k int :: 0 <= k && k < ncalls() ==> res(k) == nil)
//@ loop 1 invariant (args == nil || fresh(base(args))) && ncalls() == indexExpr + 1 && evalsPrefix(callExpr.SubExprs) && (forall k int :: 0 <= k && k < ncalls() ==> res(k) == nil)
//@ loop 2 invariant (args == nil || fresh(base(args))) && ncalls() == indexExpr && 0 <= indexExpr && evalsPrefix(callExpr.SubExprs) && (forall k int :: 0 <= k && k < ncalls() ==> res(k) == nil)
// C07/C11: every conversion of an argument to its Go parameter type happens right after the evaluation of THAT operand (before any
// later operand is evaluated - so a failing conversion ends the evaluation of the operands after it), on exactly the value the
// operand yielded (or, for a spread list, on its elements), towards the type of the parameter it is bound to: the parameter at
// the current position, or for a variadic function the variadic slice type / its element type
//@ callsite convertReflectValueToType * [C07 C11] convnow: ncalls() >= 1 && res(ncalls()-1) == nil && (callarg0 == res2(ncalls()-1) || callarg0 == rvIndexV(unwrap(res2(ncalls()-1)), indexSlice))
//@ callsite convertReflectValueToType * [C11] convtype: callarg1 == typeIn(rt, indexInReal) || callarg1 == typeElem(typeIn(rt, numInReal-1)) || callarg1 == typeIn(rt, numInReal-1)
// C20: f(xs...) is rejected as "not a list" only when what xs DENOTES (unwrapped) is neither a slice nor an array
//@ callsite newStringError ~call_is_variadic_but_last_parameter [C20] spreadlist: ncalls() >= 1 && rvKind(unwrap(res2(ncalls()-1))) != reflect.Slice && rvKind(unwrap(res2(ncalls()-1))) != reflect.Array

// C11: the adapter that lets Go call a script function as a callback: it calls the script function with exactly the values Go
// passed (after a background context), ALWAYS looks at the (value, error) pair the script function returned, and returns
// normally only when that error was nil (an error inside the callback is raised as a panic, which the recover region of
// the enclosing script call turns into its error); one declared result receives the value converted to the declared type
//@ func convertVMFunctionToType$1
//@ props C11
//@ may_panic
//@ modifies *
//@ traces processCallReturnValues convertReflectValueToType
//@ ensures [C11] errsurfaces: ncalls() >= 1 && calleeIs(0, "processCallReturnValues") && res(0) == nil
//@ ensures [C11] oneresult: rtNumOut(rt) == 1 ==> ncalls() == 2 && calleeIs(1, "convertReflectValueToType") && arg(1) == res2(0) && res(1) == nil && len(result) == 1 && result[0] == res2(1)
//@ loop 0 invariant ncalls() == 0
//@ loop 1 invariant ncalls() >= 1 && calleeIs(0, "processCallReturnValues") && res(0) == nil

//@ func (*runInfoStruct).callVMFunctionDirect
//@ props C04 C02 C08
//@ like template.evalExpr
//@ requires node: callExpr != nil
// C16: `go f(args)` evaluates every argument, in the calling goroutine, before the new goroutine is started
//@ spawnsite [C16 C07] argsfirst: ncalls() == len(callExpr.SubExprs) && evalsPrefix(callExpr.SubExprs) && (forall k int :: 0 <= k && k < ncalls() ==> res(k) == nil)
// ... and hands exactly those values, in order, with the caller's context, to the goroutine
//@ spawnsite [C16 C11] argspassed: goarg0 == runInfo.ctx && (ngoargs >= 2 ==> goarg1 == res2(0)) && (ngoargs >= 3 ==> goarg2 == res2(1)) && (ngoargs >= 4 ==> goarg3 == res2(2)) && (ngoargs >= 5 ==> goarg4 == res2(3))
//@ loop 0 invariant argvals: len(args) == ncalls() && (forall k int :: 0 <= k && k < len(args) ==> args[k] == res2(k))
//@ ensures [C07 C08 C02] nothandled: !handled ==> runInfo.err == old(runInfo.err) && runInfo.rv == old(runInfo.rv) && polls == old(polls) && fired == old(fired) && ncalls() == 0
//@ ensures [C07] order: evalsPrefix(callExpr.SubExprs) && okButLast()
//@ loop 0 invariant fresh(base(args)) && ncalls() == rangeindex + 1 && rangeindex < len(callExpr.SubExprs) && evalsPrefix(callExpr.SubExprs) && (forall k int :: 0 <= k && k < ncalls() ==> res(k) == nil)

//@ func makeType
//@ props C04
//@ requires ok: riOK(runInfo) && typeStruct != nil
//@ requires [C13] nolocks: nolocks()
//@ requires [C08] clean: runInfo.err == nil
//@ modifies runInfo.err
//@ ensures [C08] nosentinel: notSentinel(runInfo.err) && runInfo.err != ErrInterrupt
//@ loops invariant riOK(runInfo) && runInfo.err == nil

//@ func getTypeFromEnv
//@ props C04
//@ requires ok: riOK(runInfo) && typeStruct != nil
//@ requires [C13] nolocks: nolocks()
//@ modifies runInfo.err
//@ ensures [C08] nosentinel: notSentinel(runInfo.err) && runInfo.err != ErrInterrupt
''')
# invokeChanExpr callsite
txt = "\n".join(out)
txt = txt.replace("//@ func (*runInfoStruct).invokeChanExpr\n//@ props C04 C02 C08\n//@ like template.evalExpr\n//@ requires node: expr != nil\n",
                  "//@ func (*runInfoStruct).invokeChanExpr\n//@ props C04 C02 C08\n//@ like template.evalExpr\n//@ requires node: expr != nil\n//@ callsite reflect.Select * [C02] ctxfirst: ctxFirst(arg0, runInfo.ctx)\n")
open('/repo/vm/zz_contracts_expr_verif.go','w').write(txt)
print("written")
