#!/usr/bin/env python3
"""Re-runs the property checks against every seeded change under /verif/seeded/<id>/ and rewrites its meta.json.

Works on a frozen copy of /repo under /tmp (removed at the end), so /repo itself is never touched: for each seed the
patch is applied to the copy, the quick check of the seed's property is run with GOVC_REPO pointing at the copy, and the
patch is reverted. Records exit code, number of VIOLATION lines and the first failing obligations.
usage: seed_recheck.py [seed-id ...]
"""
import json, os, re, subprocess, sys

V = '/verif'
DESC = {
 'C01-b': "isHashable decided by the static type (Type().Comparable()): an unhashable value behind an interface reaches SetMapIndex/MapIndex and panics",
 'C02-a': "ctx.Done() channel cached in runInfo when the run starts instead of being polled from the context",
 'C04-a': "C-style for: the return path leaves the loop's child scope installed",
 'C04-b': "functions without parameters share one body scope across all their invocations",
 'C05-a': ">= on two integers computed in float64 (wrong above 2^53)",
 'C05-b': "% by a power of two computed with & (wrong for negative dividends)",
 'C06-a': "int == float decided in the integer domain when the int is the left operand only (asymmetric above 2^53)",
 'C07-a': "direct call path evaluates the arguments before checking the concrete signature; for >=5 parameters they are evaluated twice",
 'C08-a': "break inside a for-over-map loop acts as continue",
 'C08-b': "break inside a switch ends only the switch, the enclosing loop goes on",
 'C09-a': "an error raised by a deferred call is dropped when the body left through an explicit return",
 'C12-a': "built-in type names are looked up before the parent chain (shadow user types of enclosing scopes)",
 'C12-b': "DeepCopy copies only the scope and its direct parent; deeper scopes stay shared",
 'C13-a': "SetValue checks for the symbol under RLock, releases, then writes under a second Lock",
 'C14-a': "makeType counts down the Dimensions field of the parsed type node (tree mutated by execution)",
 'C15-a': "scanRawString jumps to the closing delimiter with set(): newlines inside raw strings and block comments are not counted",
 'C17-a': "walker returns early on a switch without cases, skipping the default block",
 'C18-b': "top-level break/continue make the command exit 0 without a diagnostic",
 'C19-b': "typed-slice conversion keeps the previous element for an unconvertible one instead of the zero value",
 'C03-c': "decimal integer literals parsed with base 0: a leading zero makes them octal (010 is 8) or invalid (0019)",
 'C07-c': "&& and || short-circuit only when the left operand has Go kind bool; for any other decided left value the right operand is evaluated anyway",
 'C09-c': "defer name(args) caches the looked-up function in the parsed call node; later runs of the same statement register the stale function",
 'C10-c': "slice + / += returns the right operand itself when the left one is empty (the result aliases it, unlike Go's append)",
 'C11-c': "member read uses only the first element of the field index path: promoted fields of embedded structs yield the embedded struct",
 'C16-c': "go call of a 3-parameter script function hands the second argument to the goroutine in place of the third",
 'C02-d': "?? recognises an interruption of its left side by comparing with the ErrInterrupt sentinel instead of polling the context (an interrupt wrapped by a script function call is swallowed)",
 'C03-d': "the action of the full slice form expr[lo:hi:max] stores the hi operand into the Cap slot",
 'C06-d': "equal answers true for two slices that start at the same storage address, without comparing lengths",
 'C10-d': "a two-index slice expression limits the capacity of the result to len(x) instead of cap(x) (appends no longer share storage)",
 'C11-d': "the callback adapter returns before looking at the script function's error when the Go func type has no results (errors inside such callbacks are dropped)",
 'C13-d': "DefineReflectType creates the lazily allocated types map before taking the lock",
 'C16-d': "the receive statement uses a non-blocking TryRecv on buffered channels: an open, momentarily empty channel reads as closed",
 'C19-d': "toInt parses numeral strings through float64 only (integers above 2^53 come back rounded)",
 'C20-b': "the right operand of comparisons is no longer unwrapped from an interface-typed element",
}
EXTRA_PROPS = {'C09-c': ['C14']}   # seeds whose change is (also) a violation of another claimed property
FIRST = {  # verdict of the check as it was when the seed was first evaluated
 'C08-a': 'missed', 'C08-b': 'missed', 'C04-b': 'missed', 'C19-b': 'missed', 'C01-b': 'missed',
 'C06-d': 'missed', 'C10-d': 'missed', 'C11-d': 'missed', 'C19-d': 'missed',
 'C07-c': 'missed', 'C10-c': 'missed', 'C11-c': 'missed', 'C16-c': 'missed', 'C09-c': 'missed by the C09 check, caught by the C14 check (store into the parsed tree)',
}

def sh(*a, **kw):
    return subprocess.run(a, capture_output=True, text=True, **kw)

def main():
    ids = sys.argv[1:] or sorted(os.listdir(f'{V}/seeded'))
    import tempfile, shutil
    work = tempfile.mkdtemp(prefix='govc-seedwork-')
    sh('rsync', '-a', '--exclude', '.git', os.environ.get('GOVC_BASE_REPO', '/repo') + '/', work + '/')
    try:
        run(ids, work)
    finally:
        shutil.rmtree(work, ignore_errors=True)

def run(ids, work):
    for sid in ids:
        d = f'{V}/seeded/{sid}'
        patch = f'{d}/patch.diff'
        if not os.path.exists(patch):
            continue
        prop = sid.split('-')[0]
        props = [prop] + EXTRA_PROPS.get(sid, [])
        r = sh('patch', '-s', '-p1', '-d', work, '-i', patch)
        if r.returncode != 0:
            print(sid, 'patch does not apply:', (r.stdout + r.stderr).strip(), flush=True)
            sh('patch', '-s', '-R', '-p1', '-d', work, '-i', patch)
            continue
        out, rcs = '', {}
        try:
            env = dict(os.environ, GOVC_EVIDENCE='/tmp/seed-evidence', GOVC_REPO=work)
            for pr in props:
                c = sh(f'{V}/bin/govc', 'check', '--property', pr, env=env)
                out += c.stdout + c.stderr
                rcs[pr] = c.returncode
        finally:
            sh('patch', '-s', '-R', '-p1', '-d', work, '-i', patch)
            sh('rm', '-rf', '/tmp/seed-evidence')
        class _C: pass
        c = _C(); c.returncode = 1 if any(v == 1 for v in rcs.values()) else max(rcs.values())
        viol = [l for l in out.split('\n') if l.startswith('VIOLATION')]
        obl = [l.strip() for l in out.split('\n') if l.startswith('  obligation') or l.startswith('  proved obligation group')]
        demo = [f for f in os.listdir(d) if f.endswith('_test.go')]
        meta = {
            'seed': sid, 'property': prop, 'change': DESC.get(sid, ''),
            'origin': 'independent sub-agent given only the property text and a scratch worktree; compiles, existing suite passes, demo test fails with the change and passes without it (confirmed with tools/seed_eval.sh)',
            'demo_test': demo[0] if demo else None,
            'first_evaluation': FIRST.get(sid, 'caught'),
            'now': 'caught' if c.returncode == 1 and viol else 'MISSED',
            'check_exit': c.returncode, 'check_exit_by_property': rcs, 'violation_lines': len(viol),
            'first_failing_obligations': [o[:300] for o in obl[:3]],
        }
        json.dump(meta, open(f'{d}/meta.json', 'w'), indent=1)
        print(f"{sid}: {meta['now']} exit={c.returncode} violations={len(viol)} {obl[0][:160] if obl else ''}", flush=True)

main()
