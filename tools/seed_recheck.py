#!/usr/bin/env python3
"""Re-runs the property checks against every seeded change under /verif/seeded/<id>/ and rewrites its meta.json.

Works on a frozen copy of /repo under /tmp (removed at the end), so /repo itself is never touched: for each seed the
patch is applied to the copy, the quick check of the seed's property is run with GOVC_REPO pointing at the copy, and the
patch is reverted. Records exit code, number of VIOLATION lines and the first failing obligations.
usage: seed_recheck.py [seed-id ...]
"""
import json, os, re, subprocess, sys

V = '/verif'
DESC = {
 'C01-b': "isHashable decided by the static type (Type().Comparable()): an unhashable value behind an interface reaches SetMapIndex/MapIndex and panics",
 'C02-a': "ctx.Done() channel cached in runInfo when the run starts instead of being polled from the context",
 'C04-a': "C-style for: the return path leaves the loop's child scope installed",
 'C04-b': "functions without parameters share one body scope across all their invocations",
 'C05-a': ">= on two integers computed in float64 (wrong above 2^53)",
 'C05-b': "% by a power of two computed with & (wrong for negative dividends)",
 'C06-a': "int == float decided in the integer domain when the int is the left operand only (asymmetric above 2^53)",
 'C07-a': "direct call path evaluates the arguments before checking the concrete signature; for >=5 parameters they are evaluated twice",
 'C08-a': "break inside a for-over-map loop acts as continue",
 'C08-b': "break inside a switch ends only the switch, the enclosing loop goes on",
 'C09-a': "an error raised by a deferred call is dropped when the body left through an explicit return",
 'C12-a': "built-in type names are looked up before the parent chain (shadow user types of enclosing scopes)",
 'C12-b': "DeepCopy copies only the scope and its direct parent; deeper scopes stay shared",
 'C13-a': "SetValue checks for the symbol under RLock, releases, then writes under a second Lock",
 'C14-a': "makeType counts down the Dimensions field of the parsed type node (tree mutated by execution)",
 'C15-a': "scanRawString jumps to the closing delimiter with set(): newlines inside raw strings and block comments are not counted",
 'C17-a': "walker returns early on a switch without cases, skipping the default block",
 'C18-b': "top-level break/continue make the command exit 0 without a diagnostic",
 'C19-b': "typed-slice conversion keeps the previous element for an unconvertible one instead of the zero value",
 'C03-c': "decimal integer literals parsed with base 0: a leading zero makes them octal (010 is 8) or invalid (0019)",
 'C07-c': "&& and || short-circuit only when the left operand has Go kind bool; for any other decided left value the right operand is evaluated anyway",
 'C09-c': "defer name(args) caches the looked-up function in the parsed call node; later runs of the same statement register the stale function",
 'C10-c': "slice + / += returns the right operand itself when the left one is empty (the result aliases it, unlike Go's append)",
 'C11-c': "member read uses only the first element of the field index path: promoted fields of embedded structs yield the embedded struct",
 'C16-c': "go call of a 3-parameter script function hands the second argument to the goroutine in place of the third",
 'C02-d': "?? recognises an interruption of its left side by comparing with the ErrInterrupt sentinel instead of polling the context (an interrupt wrapped by a script function call is swallowed)",
 'C03-d': "the action of the full slice form expr[lo:hi:max] stores the hi operand into the Cap slot",
 'C06-d': "equal answers true for two slices that start at the same storage address, without comparing lengths",
 'C10-d': "a two-index slice expression limits the capacity of the result to len(x) instead of cap(x) (appends no longer share storage)",
 'C11-d': "the callback adapter returns before looking at the script function's error when the Go func type has no results (errors inside such callbacks are dropped)",
 'C13-d': "DefineReflectType creates the lazily allocated types map before taking the lock",
 'C16-d': "the receive statement uses a non-blocking TryRecv on buffered channels: an open, momentarily empty channel reads as closed",
 'C19-d': "toInt parses numeral strings through float64 only (integers above 2^53 come back rounded)",
 'C20-b': "the right operand of comparisons is no longer unwrapped from an interface-typed element",
 'C03-e': "scanNumber keeps the exponent marker as written: an upper-case E is no longer normalised to e, and toNumber (which classifies a numeral as float by '.' or lower-case 'e') rejects 1E3",
 'C04-e': 'runIfStmt skips the child scope for then/else blocks whose top-level statements are judged not to bind names; the judgement overlooks `v, ok = m[k]` and `x = <-ch`',
 'C05-e': "string + number formats floats through numToString (strconv 'G': upper-case exponent) instead of fmt.Sprint",
 'C06-e': "`in` takes a Go == fast path when the item's static type equals the list's element type - also for an interface-typed item and a []interface{} list, where vm.equal's cross-type equalities are lost",
 'C07-e': 'x[i] on a nil map returns nil before evaluating the index operand',
 'C08-e': 'runSwitchStmt clears a pending break after the chosen case/default body: break inside a switch no longer reaches the enclosing loop',
 'C09-e': 'try treats any *Error whose message equals "execution interrupted" as an interruption: neither catch nor finally runs for it',
 'C10-e': 'delete returns early for an EMPTY map (Len()==0) instead of a nil one: key conversion and hashability check are skipped',
 'C11-e': 'several results of a Go function: the result list is pre-sized and typed-nil results (nil slice/map/pointer of a concrete type) are skipped with isNil, arriving as untyped nil',
 'C12-e': 'Copy shares the live values/types map with the original when the map is allocated but empty',
 'C19-e': 'toString type-switch fast path formats float32 through float64 with bitSize 64',
 'C20-e': 'for-in dereferences a non-nil pointer operand before the interface unwrap: a pointer to a slice loops when held in a variable but fails when read from an interface-typed element, field or Go result',
 'C01-e': '% keeps its zero check only on an integer fast path; with a non-integer operand the generic path divides by toInt64(rhs) unchecked: Go panic escapes Execute',
 'C02-e': 'the reflect.MakeFunc translator (5+ parameters, variadic) runs the body under runInfo.ctx of the run that DEFINED the function instead of the context passed by the caller',
 'C14-e': 'int64Cache slots are boxed out of one package-level backing array: cached values become addressable, &x yields a pointer into process-wide storage',
 'C15-e': 'scanRawString slices the body out of src and counts lines itself without updating lineHead: columns on the closing line of a multi-line raw string / block comment are measured from a stale line head',
 'C16-e': "the receive select-case slice is cached on runInfo and hoisted out of the for-in-channel loop: a receive in the loop body redirects the loop's next receive to the body's channel",
 'C17-e': "walkExpr's SliceExpr case returns after End when Begin is nil: the Cap subtree of item[:end:cap] is never presented",
 'C13-f': 'SetValue walks the chain checking each scope under RLock and takes the write lock only on the scope where the symbol was found: check and write are two critical sections',
 'C18-f': 'runNonInteractive buffers the output of print/println/printf (bufio over stdout, flushed at exit) while output written by bundled packages goes straight to fd 1',
 'C03-f': "toNumber's four prefix branches are merged: magnitude parsed with ParseUint, sign applied afterwards, range check off by one for positive literals",
 'C04-f': 'NewEnv links a child scope to the nearest non-empty ancestor instead of its real parent (empty scopes are skipped at creation time)',
 'C05-f': 'shift counts >= 64 short-circuit to 0 for both << and >>',
 'C08-f': 'runStmtsStmt handles a bare `return` itself (sets ErrReturn) without running runReturnStmt, whose reset of rv to nil is thereby skipped',
 'C09-f': "runDefers takes a deferred call's error only when the incoming error is nil; funcExpr clears ErrReturn before calling it, RunContext does not",
 'C10-f': 'a slice expression covering the whole operand returns the operand itself before the cap operand is looked at',
 'C11-f': "element-wise conversions skip nil interface elements ('the zero value is already in place'); for maps the key is then absent from the converted map",
 'C19-f': 'toChar returns string([]byte{byte(s)}) for code points 0..255',
 'C20-f': "switch compares subject and case with Go == when both have the same static type; two interface-typed operands always look same-typed, so vm.equal's cross-type equalities are lost",
 'C07-f': 'variadic tail of a non-spread call: all remaining operands are evaluated first, conversion to the element type happens in a second loop',
 'C12-g': 'DeepCopy leaves empty enclosing scopes (no values, no types, not the root) out of the copied chain - also when such a scope carries an external lookup',
 'C14-g': 'defer name(args) resolves the function into the PARSED call node (callExpr = t; t.Func = looked-up value) instead of a fresh node',
 'C06-g': "mixed-width floats are compared after converting the right operand to the left operand's type (instead of one rendering of each)",
 'C17-g': 'walker helper walkOperands stops at the first nil operand: a slice expression without begin bound loses its end and cap subtrees',
 'C09-g': 'each function value keeps one deferred-call buffer reused by all its invocations (runInfo.defers starts as deferBuf[:0])',
 'C16-g': 'buffered-channel send fast path: if Len() < Cap() the value is sent with TrySend whose result is ignored',
 'C15-g': 'the actions of TRUE / FALSE / NIL assign one shared package-level literal node (and SetPosition on it) instead of building a fresh node',
 'C01-g': "isHashable decided by the dynamic TYPE's comparability (v.Type().Comparable()) after unwrapping: a struct with an interface field holding a slice passes the guard",
}
NEEDS = {
 'C12-g': 'a chain of three or more scopes whose empty middle scope has SetExternalLookup set; DeepCopy; a name only that lookup serves is resolved through the copy',
 'C14-g': 'the same parsed tree run again (another environment) or the defer statement executed again with the name rebound: the stale function is called',
 'C06-g': 'a float32 supplied by Go compared with a float64 / numeral string on the LEFT: == is no longer symmetric (1.1)',
 'C17-g': 'a[:e] or a[:e:c] anywhere in the tree',
 'C09-g': 'nested invocations of the same function value (recursion, re-entry) that each defer something, after a first completed call warmed the buffer',
 'C16-g': 'two goroutines sending concurrently on a buffered channel: the loser of the race for the free slot loses its value',
 'C15-g': 'a keyword literal occurring twice (in one text or in two ParseSrc calls): positions of earlier trees change, nodes are shared',
 'C01-g': "a make(struct{A interface}) value whose member holds a slice/map used as a map key: runtime panic 'hash of unhashable type' escapes",
 'C13-f': "Set(x) racing Delete(x) on the same scope: the Delete runs between SetValue's RUnlock and Lock and the binding is resurrected",
 'C18-f': "a script mixing println with fmt.Println of the imported fmt package: the command's stdout is reordered",
 'C03-f': 'an unsigned hexadecimal or binary literal equal to exactly 2^63 (0x8000000000000000) parses as MinInt64 instead of being rejected',
 'C04-f': 'a closure created in a nested block while the enclosing function scope is still empty, which escapes; the function scope binds a name afterwards; the closure reads/writes the outer binding',
 'C05-f': '>> with a negative left operand and an (unsigned) count >= 64, e.g. -1 >> 64 or -1 >> -1 (Go: -1)',
 'C08-f': 'a bare return inside a block after a statement (or as first statement of a loop/switch body) that left a non-nil value: the function yields that value instead of nil',
 'C09-f': 'a top-level defer whose call fails, with the top-level code ending in an explicit return: the deferred error is dropped',
 'C10-f': 'x[0:len(x):max] on a slice: cap operand neither evaluated, validated nor applied (aliasing after growth, bad caps accepted)',
 'C11-f': 'a script map with a nil value passed to a Go parameter of another map type (map[string]int): the callee sees a shorter map',
 'C19-f': "toChar of a code point in 128..255: one raw byte (invalid UTF-8) instead of Go's two-byte encoding",
 'C20-f': 'switch subject and case both read from slice elements / interface{} fields / Go results, with loosely equal values of different dynamic types (1 vs 1.0)',
 'C07-f': 'a Go function with a typed variadic parameter (...int64), an unconvertible operand followed by further operands: they are evaluated although the call is rejected',
 'C03-e': 'a float literal spelled with an upper-case E and no decimal point (1E3, 2E-2)',
 'C04-e': 'an if/else block consisting only of a two-value map read or a channel receive statement (plus non-binding statements), whose target names are unbound outside',
 'C05-e': 'concatenating a string with a float whose default formatting uses an exponent (>= 1e21 ... or |x| >= 1e6 / < 1e-4 as float)',
 'C06-e': 'item written directly as a slice element (a[0] in [...]) and a match that needs a cross-type equality ("1" vs 1, 1 vs 1.0)',
 'C07-e': 'indexing a nil map (Go-side nil map, element of make([]map[..]..)) with an index expression that has an effect or raises an error',
 'C08-e': 'a switch inside a loop with a break executed in a case or default body',
 'C09-e': 'throw "execution interrupted" (or an error printing as that text) inside a try body or a function called from it',
 'C10-e': 'delete with an unhashable or inconvertible key on a non-nil map that is empty at that moment',
 'C11-e': 'a Go function with two or more results of which one is a typed nil pointer/slice/map',
 'C12-e': 'a scope whose values were all deleted again, then Copy/DeepCopy, then a Define on either side',
 'C19-e': 'toString of a bare float32 that is not exactly representable in few digits (element of make([]float32, 1) set to 0.1)',
 'C20-e': 'for x in <pointer to slice/array> where the pointer comes from a slice element, an interface{} struct field or a Go function returning interface{}',
 'C01-e': 'a % b with a float/bool/nil/string/container operand whose right side truncates to 0 (7 % 0.5, 7 % nil)',
 'C02-e': 'a script function with >= 5 parameters or a variadic one, defined in an earlier Execute call and then called (spinning) under a later cancellable context',
 'C14-e': 'a variable holding a computed integer in -1..4095, its address taken, a write through the pointer; every later run sees the changed integer',
 'C15-e': 'a raw string or /* */ comment containing a newline, followed on its closing line by a token that reports a position (an error)',
 'C16-e': 'for x in ch whose body (same function frame) receives from a different channel',
 'C17-e': 'a three-index slice expression without a begin bound (a[:x:y+1])',
}
EXTRA_PROPS = {'C09-c': ['C14']}   # seeds whose change is (also) a violation of another claimed property
FIRST = {  # verdict of the check as it was when the seed was first evaluated
 'C06-g': 'missed', 'C09-g': 'missed', 'C15-g': 'missed',
 'C11-f': 'missed', 'C19-f': 'missed', 'C07-f': 'missed', 'C20-f': 'missed by the C20 check, caught by the C08 and C06 checks (runSwitchStmt matching clauses, now also tagged C20)',
 'C03-e': 'missed', 'C07-e': 'missed', 'C10-e': 'missed', 'C11-e': 'missed', 'C19-e': 'missed', 'C20-e': 'missed', 'C02-e': 'missed', 'C14-e': 'missed',
 'C08-a': 'missed', 'C08-b': 'missed', 'C04-b': 'missed', 'C19-b': 'missed', 'C01-b': 'missed',
 'C06-d': 'missed', 'C10-d': 'missed', 'C11-d': 'missed', 'C19-d': 'missed',
 'C07-c': 'missed', 'C10-c': 'missed', 'C11-c': 'missed', 'C16-c': 'missed', 'C09-c': 'missed by the C09 check, caught by the C14 check (store into the parsed tree)',
}

def sh(*a, **kw):
    return subprocess.run(a, capture_output=True, text=True, **kw)

def main():
    ids = sys.argv[1:] or sorted(os.listdir(f'{V}/seeded'))
    import tempfile, shutil, threading
    jobs = int(os.environ.get('SEED_JOBS', '4'))
    chunks = [ids[i::jobs] for i in range(jobs)]
    def worker(chunk):
        if not chunk:
            return
        work = tempfile.mkdtemp(prefix='govc-seedwork-')
        sh('rsync', '-a', '--exclude', '.git', os.environ.get('GOVC_BASE_REPO', '/repo') + '/', work + '/')
        try:
            run(chunk, work)
        finally:
            shutil.rmtree(work, ignore_errors=True)
    ts = [threading.Thread(target=worker, args=(c,)) for c in chunks]
    for t in ts: t.start()
    for t in ts: t.join()

def run(ids, work):
    for sid in ids:
        d = f'{V}/seeded/{sid}'
        patch = f'{d}/patch.diff'
        if not os.path.exists(patch):
            continue
        prop = sid.split('-')[0]
        props = [prop] + EXTRA_PROPS.get(sid, [])
        r = sh('patch', '-s', '-p1', '-d', work, '-i', patch)
        if r.returncode != 0:
            print(sid, 'patch does not apply:', (r.stdout + r.stderr).strip(), flush=True)
            sh('patch', '-s', '-R', '-p1', '-d', work, '-i', patch)
            continue
        out, rcs = '', {}
        try:
            env = dict(os.environ, GOVC_EVIDENCE=work + '-evidence', GOVC_REPO=work)
            for pr in props:
                c = sh(f'{V}/bin/govc', 'check', '--property', pr, env=env)
                out += c.stdout + c.stderr
                rcs[pr] = c.returncode
        finally:
            sh('patch', '-s', '-R', '-p1', '-d', work, '-i', patch)
            sh('rm', '-rf', work + '-evidence')
        class _C: pass
        c = _C(); c.returncode = 1 if any(v == 1 for v in rcs.values()) else max(rcs.values())
        viol = [l for l in out.split('\n') if l.startswith('VIOLATION')]
        obl = [l.strip() for l in out.split('\n') if l.startswith('  obligation') or l.startswith('  proved obligation group')]
        demo = [f for f in os.listdir(d) if f.endswith('_test.go')]
        meta = {
            'seed': sid, 'property': prop, 'change': DESC.get(sid, ''), 'needs_to_manifest': NEEDS.get(sid, 'see change'),
            'ran': 'tools/seed_eval.sh (scratch worktree: go build ./..., go test ./... without the demo, demo with / without the change) and tools/seed_recheck.py (patch applied to a copy of /repo, govc check --property <id>, patch reverted)',
            'origin': 'independent sub-agent given only the property text and a scratch worktree; compiles, existing suite passes, demo test fails with the change and passes without it (confirmed with tools/seed_eval.sh)',
            'demo_test': demo[0] if demo else None,
            'first_evaluation': FIRST.get(sid, 'caught'),
            'now': 'caught' if c.returncode == 1 and viol else 'MISSED',
            'check_exit': c.returncode, 'check_exit_by_property': rcs, 'violation_lines': len(viol),
            'first_failing_obligations': [o[:300] for o in obl[:3]],
        }
        json.dump(meta, open(f'{d}/meta.json', 'w'), indent=1)
        print(f"{sid}: {meta['now']} exit={c.returncode} violations={len(viol)} {obl[0][:160] if obl else ''}", flush=True)

main()
