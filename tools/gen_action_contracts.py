#!/usr/bin/env python3
"""Generates /repo/parser/zz_contracts_actions_verif.go: the contracts of the grammar's semantic actions (C03 (a)).

The table below is written from the language description (which node an operator or postfix form denotes and which
operand goes into which slot), NOT from the actions of parser.go.y. A contract is keyed by the production text; govc maps
it to the action number through the production numbering of parser.go.y and checks the action body it extracted from
parser.go (engine/cmd/govc/actions.go)."""

# result field of the value stack record (= the nonterminal's declared type field), node type, {field: slot}
# slot: ("e", k) = $k.expr, ("op", k, field) = $k.<field>, ("lit", k) = $k.tok.Lit, ("s", "text") = string constant, ("nil",)
T = []

def binop(lhs_nt, node, tok, spelled):
    T.append((f"{lhs_nt} : expr {tok} expr", "expr", node, {"LHS": ("e", 1), "Operator": ("s", spelled), "RHS": ("e", 3)}))

for tok, sp in [("OROR", "||"), ("ANDAND", "&&")]:
    binop("op_binary", "BinaryOperator", tok, sp)
for tok, sp in [("EQEQ", "=="), ("NEQ", "!="), ("'>'", ">"), ("GE", ">="), ("'<'", "<"), ("LE", "<=")]:
    binop("op_comparison", "ComparisonOperator", tok, sp)
for tok, sp in [("'+'", "+"), ("'-'", "-"), ("'|'", "|")]:
    binop("op_add", "AddOperator", tok, sp)
for tok, sp in [("'*'", "*"), ("'/'", "/"), ("'%'", "%"), ("SHIFTLEFT", "<<"), ("SHIFTRIGHT", ">>"), ("'&'", "&")]:
    binop("op_multiply", "MultiplyOperator", tok, sp)
for nt in ["op_multiply", "op_add", "op_comparison", "op_binary"]:
    T.append((f"expr_binary : {nt}", "expr", "OpExpr", {"Op": ("e", 1)}))
for tok, sp in [("'-'", "-"), ("'!'", "!"), ("'^'", "^")]:
    T.append((f"expr_unary : {tok} expr", "expr", "UnaryExpr", {"Operator": ("s", sp), "Expr": ("e", 2)}))
T.append(("expr_unary : '&' expr", "expr", "AddrExpr", {"Expr": ("e", 2)}))
T.append(("expr_unary : '*' expr", "expr", "DerefExpr", {"Expr": ("e", 2)}))
T.append(("expr : expr '?' expr ':' expr", "expr", "TernaryOpExpr", {"Expr": ("e", 1), "LHS": ("e", 3), "RHS": ("e", 5)}))
T.append(("expr : expr NILCOALESCE expr", "expr", "NilCoalescingOpExpr", {"LHS": ("e", 1), "RHS": ("e", 3)}))
T.append(("expr : expr IN expr", "expr", "IncludeExpr", {"ItemExpr": ("e", 1), "ListExpr": ("e", 3)}))
T.append(("expr : '(' expr ')'", "expr", "ParenExpr", {"SubExpr": ("e", 2)}))
T.append(("expr : expr '[' expr ']'", "expr", "ItemExpr", {"Item": ("e", 1), "Index": ("e", 3)}))
T.append(("expr : expr_ident '[' expr ']'", "expr", "ItemExpr", {"Item": ("op", 1, "expr_ident"), "Index": ("e", 3)}))
T.append(("expr : LEN '(' expr ')'", "expr", "LenExpr", {"Expr": ("e", 3)}))
T.append(("expr_member : expr '.' IDENT", "expr_member", "MemberExpr", {"Expr": ("e", 1), "Name": ("lit", 3)}))
T.append(("expr_ident : IDENT", "expr_ident", "IdentExpr", {"Lit": ("lit", 1)}))
for head in ["expr_ident", "expr"]:
    I1 = ("op", 1, "expr_ident") if head == "expr_ident" else ("e", 1)
    T.append((f"expr_slice : {head} '[' expr ':' expr ']'", "expr_slice", "SliceExpr", {"Item": I1, "Begin": ("e", 3), "End": ("e", 5), "Cap": ("nil",)}))
    T.append((f"expr_slice : {head} '[' expr ':' ']'", "expr_slice", "SliceExpr", {"Item": I1, "Begin": ("e", 3), "End": ("nil",), "Cap": ("nil",)}))
    T.append((f"expr_slice : {head} '[' ':' expr ']'", "expr_slice", "SliceExpr", {"Item": I1, "Begin": ("nil",), "End": ("e", 4), "Cap": ("nil",)}))
    T.append((f"expr_slice : {head} '[' ':' expr ':' expr ']'", "expr_slice", "SliceExpr", {"Item": I1, "Begin": ("nil",), "End": ("e", 4), "Cap": ("e", 6)}))
    T.append((f"expr_slice : {head} '[' expr ':' expr ':' expr ']'", "expr_slice", "SliceExpr", {"Item": I1, "Begin": ("e", 3), "End": ("e", 5), "Cap": ("e", 7)}))

PTR_FIELDS = {"expr_member": "*ast.MemberExpr", "expr_ident": "*ast.IdentExpr"}   # value-stack slots declared with a concrete pointer type

T.append(("expr : IDENT '(' exprs ')'", "expr", "CallExpr", {"Name": ("lit", 1), "SubExprs": ("op", 3, "exprs"), "VarArg": ("b", False)}))
T.append(("expr : IDENT '(' exprs VARARG ')'", "expr", "CallExpr", {"Name": ("lit", 1), "SubExprs": ("op", 3, "exprs"), "VarArg": ("b", True)}))
T.append(("expr : expr '(' exprs ')'", "expr", "AnonCallExpr", {"Expr": ("e", 1), "SubExprs": ("op", 3, "exprs"), "VarArg": ("b", False)}))
T.append(("expr : expr '(' exprs VARARG ')'", "expr", "AnonCallExpr", {"Expr": ("e", 1), "SubExprs": ("op", 3, "exprs"), "VarArg": ("b", True)}))

def slot(v):
    if v[0] == "e":
        return f"old(yyDollar[{v[1]}].expr)"
    if v[0] == "op":
        if v[2] in PTR_FIELDS:   # a pointer-typed slot stored into an interface-typed node field
            return f'iface(old(yyDollar[{v[1]}].{v[2]}), "{PTR_FIELDS[v[2]]}")'
        return f"old(yyDollar[{v[1]}].{v[2]})"
    if v[0] == "lit":
        return f"old(yyDollar[{v[1]}].tok.Lit)"
    if v[0] == "b":
        return "true" if v[1] else "false"
    if v[0] == "s":
        return '"' + v[1] + '"'
    return "nil"

out = ['//go:build verif', '// +build verif', '',
       '// Code generated by /verif/tools/gen_action_contracts.py. Comment-only contract file (C03: semantic actions).',
       '// Each contract is keyed by the production text; the checked body is the `case N:` of yyParserImpl.Parse that goyacc',
       '// generated for that production, extracted on every run (see engine/cmd/govc/actions.go).', '', 'package parser', '']
for text, field, node, fields in T:
    k = len(text.split(" : ", 1)[1].split())
    if field in PTR_FIELDS:
        n = f'yyVAL.{field}'
        conj = [f'{n} != nil', f'fresh({n})'] + [f'{n}.{f} == {slot(v)}' for f, v in fields.items()]
    else:
        n = f'as(yyVAL.{field}, "*ast.{node}")'
        conj = [f'typeis(yyVAL.{field}, "*ast.{node}")', f'{n} != nil', f'fresh({n})'] + [f'{n}.{f} == {slot(v)}' for f, v in fields.items()]
    # ASSUMPTION (driver + grammar): an operand slot of a production holds the non-nil node its own action built
    nonnil = [f'yyDollar[{v[1]}].expr != nil' for v in fields.values() if v[0] == "e"] + [f'yyDollar[{v[1]}].{v[2]} != nil' for v in fields.values() if v[0] == "op"]
    out += [f'//@ func action["{text}"]', '//@ props C03', f'//@ requires shape: yyVAL != nil && len(yyDollar) == {k + 1}']
    if nonnil:
        out += ['//@ requires operands: ' + " && ".join(nonnil)]
    out += ['//@ modifies *', f'//@ ensures [C03] node: ' + " && ".join(conj), '']
# literals: the number actions hand the spelled digits (with the '-' the grammar saw) to toNumber and build the literal node
# from its result
LIT = 'as(yyVAL.expr_literals, "*ast.LiteralExpr")'
for text, k, argexpr in [("expr_literals : '-' NUMBER", 2, 'concat("-", old(yyDollar[2].tok.Lit))'), ("expr_literals : NUMBER", 1, 'old(yyDollar[1].tok.Lit)')]:
    out += [f'//@ func action["{text}"]', '//@ props C03', f'//@ requires shape: yyVAL != nil && len(yyDollar) == {k + 1}', '//@ modifies *',
            '//@ traces toNumber',
            f'//@ ensures [C03] number: ncalls() == 1 && calleeIs(0, "toNumber") && arg(0) == {argexpr} && typeis(yyVAL.expr_literals, "*ast.LiteralExpr") && {LIT} != nil && fresh({LIT}) && {LIT}.Literal == res2(0)', '']
# keyword literals: every occurrence builds its OWN fresh literal node (C15: parsing keeps no memory between calls - a node shared
# between trees would have its position overwritten by later parses) holding the value the keyword denotes (C03)
for text, val in [("expr_literals : TRUE", "trueValue"), ("expr_literals : FALSE", "falseValue"), ("expr_literals : NIL", "nilValue")]:
    out += [f'//@ func action["{text}"]', '//@ props C03 C15', '//@ requires shape: yyVAL != nil && len(yyDollar) == 2', '//@ modifies *',
            f'//@ ensures [C03 C15] keyword: typeis(yyVAL.expr_literals, "*ast.LiteralExpr") && {LIT} != nil && fresh({LIT}) && {LIT}.Literal == {val}', '']
open('/repo/parser/zz_contracts_actions_verif.go', 'w').write("\n".join(out))
print("written", len(T), "action contracts")
